"""C12 — eligibility predicates and connection counters of a backend (engine M)."""
import re

from .. import engine, solve
from ... import mirrun


class Q:
    def __init__(self, ctx):
        self.ctx, self.n, self.secs = ctx, 0, 0.0

    def __call__(self, asserts, get=()):
        v, model, s, detail = solve.check(self.ctx.script(asserts, get))
        self.n += 1
        self.secs += s
        return v, model, detail


def promoted_variant(crate, fn_suffix, idx):
    """the enum variant a `promoted[idx]` constant of a function denotes (text of its MIR)"""
    path = mirrun.dump(crate)
    pat = re.compile(r"^const .*%s::promoted\[%d\]: .* = \{$" % (re.escape(fn_suffix), idx))
    body = []
    on = False
    with open(path, errors="replace") as f:
        for line in f:
            if not on and pat.match(line.rstrip("\n")):
                on = True
                continue
            if on:
                if line.startswith("}"):
                    break
                body.append(line.strip())
    m = [re.match(r"^_1 = ([\w:]+);$", l) for l in body]
    m = [x.group(1) for x in m if x]
    return m[0] if m else None


def eq_calls(ev, ty):
    return [e for e in ev if e.kind == "call" and re.search(r"<(\w+::)*%s as (std::cmp::)?PartialEq>::(eq|ne)$" % ty, e.callee)]


def const_of(call, fn_suffix):
    """variant name of the promoted constant passed as second operand of an eq call"""
    t = call.args[1]["text"]
    # the operand is a local that was assigned `const ...::promoted[k]`
    return t


def predicate(ob, tier):
    """can_open / is_available as boolean functions of (healthy, status == Normal, policy)"""
    name = ob["fn"]
    fn = mirrun.get_fn("lib", "::" + name, sig="&backends::Backend")
    ex = engine.Executor(fn)
    ev = ex.run()
    q = Q(ex.ctx)
    res = {"paths": ex.stats["nodes"], "functions": [fn.name]}
    rets = [e for e in ev if e.kind == "return"]
    if len(rets) != 1:
        return dict(res, verdict="inconclusive", why="returns=%d" % len(rets))
    r0 = rets[0].env.get("_0")
    if r0 is None or r0.sort != "Bool":
        return dict(res, verdict="inconclusive", why="return value not a tracked bool")
    healthy = [e for e in ev if e.kind == "call" and re.search(r"HealthState::is_healthy$", e.callee)]
    st_eq = eq_calls(ev, "BackendStatus")
    if len(healthy) != 1 or len(st_eq) != 1 or not st_eq[0].callee.endswith("::eq"):
        return dict(res, verdict="inconclusive", why="shape: is_healthy calls=%d, status eq calls=%d" % (len(healthy), len(st_eq)))
    # which promoted constants are compared against?
    consts = {}
    for blk in fn.blocks.values():
        for st in blk["stmts"]:
            m = re.match(r"^(_\d+) = const .*::promoted\[(\d+)\]$", st)
            if m:
                consts[m.group(1)] = promoted_variant("lib", "::" + name, int(m.group(2)))
    def const_arg(call):
        t = call.args[1]["text"].split()[-1]
        return consts.get(t)
    problems = []
    if const_arg(st_eq[0]) is None or not const_arg(st_eq[0]).endswith("BackendStatus::Normal"):
        problems.append("status is compared with %s, not BackendStatus::Normal" % const_arg(st_eq[0]))
    if "(*_1)" not in (st_eq[0].args[0]["val"].ref or ""):
        problems.append("status comparison does not read self.status")
    h = healthy[0].result.term
    s = st_eq[0].result.term
    if name == "can_open":
        tries = [e for e in ev if e.kind == "call" and re.search(r"RetryPolicy>::can_try$", e.callee)]
        act_eq = eq_calls(ev, "RetryAction")
        if len(tries) != 1 or len(act_eq) != 1 or not act_eq[0].callee.endswith("::eq"):
            return dict(res, verdict="inconclusive", why="shape: can_try calls=%d, action eq calls=%d" % (len(tries), len(act_eq)))
        if const_arg(act_eq[0]) is None or not const_arg(act_eq[0]).endswith("RetryAction::OKAY"):
            problems.append("retry action is compared with %s, not RetryAction::OKAY" % const_arg(act_eq[0]))
        some = "(= %s %s)" % (tries[0].result_discr.term if tries[0].result_discr else ex.read_discr({}, tries[0].dest).term, engine.bv(1, 64))
        a = act_eq[0].result.term
        want = engine.AND(h, some, s, a)
        desc = "healthy && status == Normal && can_try() == Some(OKAY)"
    else:
        downs = [e for e in ev if e.kind == "call" and re.search(r"RetryPolicy>::is_down$", e.callee)]
        if len(downs) != 1:
            return dict(res, verdict="inconclusive", why="shape: is_down calls=%d" % len(downs))
        want = engine.AND(h, s, engine.NOT(downs[0].result.term))
        desc = "healthy && status == Normal && !is_down()"
    # the calls on skipped paths have no result symbol constraint: the reference is evaluated
    # lazily (short-circuit), so compare under the path guards: result true => all conjuncts
    # were evaluated and true; any conjunct evaluated false => result false
    v1, m1, d1 = q([rets[0].guard, r0.term, engine.NOT(want)])
    v2, m2, d2 = q([rets[0].guard, engine.NOT(r0.term), want,
                    healthy[0].guard, st_eq[0].guard] + ([tries[0].guard, act_eq[0].guard] if name == "can_open" else [downs[0].guard]))
    w1, _, _ = q([rets[0].guard, r0.term])
    w2, _, _ = q([rets[0].guard, engine.NOT(r0.term)])
    res["witness"] = "%s can return true: %s, false: %s" % (name, w1, w2)
    res["witness_ok"] = (w1 == "sat" and w2 == "sat")
    if "inconclusive" in (v1, v2):
        return dict(res, verdict="inconclusive", why=d1 + d2)
    if v1 == "sat":
        problems.append("%s returns true although not (%s)" % (name, desc))
    if v2 == "sat":
        problems.append("%s returns false although %s" % (name, desc))
    if problems:
        return dict(res, verdict="counterexample", text="; ".join(problems), model={"problems": problems}, queries=q.n, solver_s=q.secs,
                    replay={"reproduced": False, "why": "no native replay for this obligation"})
    return dict(res, verdict="holds", queries=q.n, solver_s=round(q.secs, 2))


def counters(ob, tier):
    """inc_connections / dec_connections: one step from an arbitrary (status, active)"""
    name = ob["fn"]
    fn = mirrun.get_fn("lib", "::" + name, sig="&mut backends::Backend")
    ex = engine.Executor(fn)
    ev = ex.run()
    q = Q(ex.ctx)
    res = {"paths": ex.stats["nodes"], "functions": [fn.name]}
    rets = [e for e in ev if e.kind == "return"]
    writes = [e for e in ev if e.kind == "write"]
    asserts = [e for e in ev if e.kind == "assert"]
    cnt_place = None
    for w in writes:
        if getattr(w, "sort", None) == 64 and w.value:
            cnt_place = w.place
    if len(rets) != 1 or cnt_place is None:
        return dict(res, verdict="inconclusive", why="no counter write found")
    cnt0 = ex.initial.get(cnt_place)
    ret = rets[0]
    problems = []
    cw = [w for w in writes if w.place == cnt_place]
    sw = [w for w in writes if w.place != cnt_place]
    one = engine.bv(1, 64)
    zero = engine.bv(0, 64)
    if name == "inc_connections":
        st_eq = eq_calls(ev, "BackendStatus")
        if len(st_eq) != 1:
            return dict(res, verdict="inconclusive", why="status eq calls=%d" % len(st_eq))
        normal = st_eq[0].result.term
        for w in cw:
            v, _, d = q([w.guard, engine.NOT("(= %s (bvadd %s %s))" % (w.value, cnt0.term, one))])
            if v != "unsat":
                problems.append("active_connections is not incremented by exactly one (%s)" % v)
            v, _, d = q([w.guard, engine.NOT(normal)])
            if v != "unsat":
                problems.append("a non-Normal backend gets its connection count incremented (%s)" % v)
        v, _, d = q([ret.guard, normal] + [engine.NOT(w.guard) for w in cw])
        if v != "unsat":
            problems.append("a Normal backend can skip the increment (%s)" % v)
        if sw:
            problems.append("inc_connections writes %s" % sw[0].place)
        wit = [q([w.guard])[0] for w in cw]
    else:
        d3 = ex.initial.get("discr(%s)" % [k for k in ex.initial if k.startswith("discr((*_1).")][0][6:-1]) if any(k.startswith("discr((*_1).") for k in ex.initial) else None
        if d3 is None:
            return dict(res, verdict="inconclusive", why="status discriminant not read")
        for w in cw:
            v, _, d = q([w.guard, engine.NOT(engine.AND("(bvugt %s %s)" % (cnt0.term, zero), "(= %s (bvsub %s %s))" % (w.value, cnt0.term, one)))])
            if v != "unsat":
                problems.append("active_connections can wrap below zero or is not decremented by exactly one (%s)" % v)
            v, _, d = q([w.guard, "(= %s %s)" % (d3.term, engine.bv(2, 64))])
            if v != "unsat":
                problems.append("a Closed backend has its count mutated (%s)" % v)
        # overflow checks rustc emitted must be unreachable
        for a in asserts:
            v, _, d = q([a.guard])
            if v != "unsat":
                problems.append("subtraction can overflow (%s)" % v)
        # Closing (1) reaching zero is retired to Closed; nothing else changes the status
        def src_text(w):
            t = getattr(w, "text", "") or ""
            m = re.match(r"^(?:move|copy) (_\d+)$", t)
            if m:
                for blk in fn.blocks.values():
                    for st in blk["stmts"]:
                        if st.startswith(m.group(1) + " = "):
                            return st.split(" = ", 1)[1]
            return t
        closed_writes = [w for w in sw if "BackendStatus::Closed" in src_text(w)]
        if len(closed_writes) != len(sw) or not sw:
            problems.append("unexpected status writes: %s" % [src_text(w) for w in sw])
        for w in closed_writes:
            v, _, d = q([w.guard, engine.NOT(engine.AND("(= %s %s)" % (d3.term, engine.bv(1, 64)), "(bvule %s %s)" % (cnt0.term, one)))])
            if v != "unsat":
                problems.append("status set to Closed although the backend is not a Closing backend reaching zero (%s)" % v)
        v, _, d = q([ret.guard, "(= %s %s)" % (d3.term, engine.bv(1, 64)), "(bvule %s %s)" % (cnt0.term, one)] + [engine.NOT(w.guard) for w in closed_writes])
        if v != "unsat":
            problems.append("a Closing backend reaching zero is not retired (%s)" % v)
        # positive count on Normal/Closing is decremented
        v, _, d = q([ret.guard, engine.NOT("(= %s %s)" % (d3.term, engine.bv(2, 64))), "(bvugt %s %s)" % (cnt0.term, zero)] + [engine.NOT(w.guard) for w in cw])
        if v != "unsat":
            problems.append("a positive count is not decremented (%s)" % v)
        wit = [q([w.guard])[0] for w in cw + closed_writes]
    res["witness"] = "counter %s, %d counter writes, %d status writes, reachability %s" % (cnt_place, len(cw), len(sw), wit)
    res["witness_ok"] = bool(wit) and all(x == "sat" for x in wit)
    if problems:
        return dict(res, verdict="counterexample", text="; ".join(problems), model={"problems": problems}, queries=q.n, solver_s=q.secs,
                    replay={"reproduced": False, "why": "no native replay for this obligation"})
    return dict(res, verdict="holds", queries=q.n, solver_s=round(q.secs, 2))


def run(ob, tier):
    return {"predicate": predicate, "counters": counters}[ob["which"]](ob, tier)
