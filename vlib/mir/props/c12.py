"""C12 — eligibility predicates and connection counters of a backend (engine M)."""
import re

from .. import engine, solve
from ... import mirrun


class Q:
    def __init__(self, ctx):
        self.ctx, self.n, self.secs = ctx, 0, 0.0

    def __call__(self, asserts, get=()):
        v, model, s, detail = solve.check(self.ctx.script(asserts, get))
        self.n += 1
        self.secs += s
        return v, model, detail


def promoted_variant(crate, fn_suffix, idx):
    """the enum variant a `promoted[idx]` constant of a function denotes (text of its MIR)"""
    path = mirrun.dump(crate)
    pat = re.compile(r"^const .*%s::promoted\[%d\]: .* = \{$" % (re.escape(fn_suffix), idx))
    body = []
    on = False
    with open(path, errors="replace") as f:
        for line in f:
            if not on and pat.match(line.rstrip("\n")):
                on = True
                continue
            if on:
                if line.startswith("}"):
                    break
                body.append(line.strip())
    m = [re.match(r"^_1 = ([\w:]+);$", l) for l in body]
    m = [x.group(1) for x in m if x]
    return m[0] if m else None


def eq_calls(ev, ty):
    return [e for e in ev if e.kind == "call" and re.search(r"<(\w+::)*%s as (std::cmp::)?PartialEq>::(eq|ne)$" % ty, e.callee)]


def const_of(call, fn_suffix):
    """variant name of the promoted constant passed as second operand of an eq call"""
    t = call.args[1]["text"]
    # the operand is a local that was assigned `const ...::promoted[k]`
    return t


def predicate(ob, tier):
    """can_open / is_available as boolean functions of (healthy, status == Normal, policy)"""
    name = ob["fn"]
    fn = mirrun.get_fn("lib", "::" + name, sig="&backends::Backend")
    ex = engine.Executor(fn)
    ev = ex.run()
    q = Q(ex.ctx)
    res = {"paths": ex.stats["nodes"], "functions": [fn.name]}
    rets = [e for e in ev if e.kind == "return"]
    if len(rets) != 1:
        return dict(res, verdict="inconclusive", why="returns=%d" % len(rets))
    r0 = rets[0].env.get("_0")
    if r0 is None or r0.sort != "Bool":
        return dict(res, verdict="inconclusive", why="return value not a tracked bool")
    healthy = [e for e in ev if e.kind == "call" and re.search(r"HealthState::is_healthy$", e.callee)]
    st_eq = eq_calls(ev, "BackendStatus")
    if len(healthy) != 1 or len(st_eq) != 1 or not st_eq[0].callee.endswith("::eq"):
        return dict(res, verdict="inconclusive", why="shape: is_healthy calls=%d, status eq calls=%d" % (len(healthy), len(st_eq)))
    # which promoted constants are compared against?
    consts = {}
    for blk in fn.blocks.values():
        for st in blk["stmts"]:
            m = re.match(r"^(_\d+) = const .*::promoted\[(\d+)\]$", st)
            if m:
                consts[m.group(1)] = promoted_variant("lib", "::" + name, int(m.group(2)))
    def const_arg(call):
        t = call.args[1]["text"].split()[-1]
        return consts.get(t)
    problems = []
    if const_arg(st_eq[0]) is None or not const_arg(st_eq[0]).endswith("BackendStatus::Normal"):
        problems.append("status is compared with %s, not BackendStatus::Normal" % const_arg(st_eq[0]))
    if "(*_1)" not in (st_eq[0].args[0]["val"].ref or ""):
        problems.append("status comparison does not read self.status")
    h = healthy[0].result.term
    s = st_eq[0].result.term
    if name == "can_open":
        tries = [e for e in ev if e.kind == "call" and re.search(r"RetryPolicy>::can_try$", e.callee)]
        act_eq = eq_calls(ev, "RetryAction")
        if len(tries) != 1 or len(act_eq) != 1 or not act_eq[0].callee.endswith("::eq"):
            return dict(res, verdict="inconclusive", why="shape: can_try calls=%d, action eq calls=%d" % (len(tries), len(act_eq)))
        if const_arg(act_eq[0]) is None or not const_arg(act_eq[0]).endswith("RetryAction::OKAY"):
            problems.append("retry action is compared with %s, not RetryAction::OKAY" % const_arg(act_eq[0]))
        some = "(= %s %s)" % (tries[0].result_discr.term if tries[0].result_discr else ex.read_discr({}, tries[0].dest).term, engine.bv(1, 64))
        a = act_eq[0].result.term
        want = engine.AND(h, some, s, a)
        desc = "healthy && status == Normal && can_try() == Some(OKAY)"
    else:
        downs = [e for e in ev if e.kind == "call" and re.search(r"RetryPolicy>::is_down$", e.callee)]
        if len(downs) != 1:
            return dict(res, verdict="inconclusive", why="shape: is_down calls=%d" % len(downs))
        want = engine.AND(h, s, engine.NOT(downs[0].result.term))
        desc = "healthy && status == Normal && !is_down()"
    # the calls on skipped paths have no result symbol constraint: the reference is evaluated
    # lazily (short-circuit), so compare under the path guards: result true => all conjuncts
    # were evaluated and true; any conjunct evaluated false => result false
    v1, m1, d1 = q([rets[0].guard, r0.term, engine.NOT(want)])
    v2, m2, d2 = q([rets[0].guard, engine.NOT(r0.term), want,
                    healthy[0].guard, st_eq[0].guard] + ([tries[0].guard, act_eq[0].guard] if name == "can_open" else [downs[0].guard]))
    w1, _, _ = q([rets[0].guard, r0.term])
    w2, _, _ = q([rets[0].guard, engine.NOT(r0.term)])
    res["witness"] = "%s can return true: %s, false: %s" % (name, w1, w2)
    res["witness_ok"] = (w1 == "sat" and w2 == "sat")
    if "inconclusive" in (v1, v2):
        return dict(res, verdict="inconclusive", why=d1 + d2)
    if v1 == "sat":
        problems.append("%s returns true although not (%s)" % (name, desc))
    if v2 == "sat":
        problems.append("%s returns false although %s" % (name, desc))
    if problems:
        return dict(res, verdict="counterexample", text="; ".join(problems), model={"problems": problems}, queries=q.n, solver_s=q.secs,
                    replay={"reproduced": False, "why": "no native replay for this obligation"})
    return dict(res, verdict="holds", queries=q.n, solver_s=round(q.secs, 2))


def counters(ob, tier):
    """inc_connections / dec_connections: one step from an arbitrary (status, active)"""
    name = ob["fn"]
    fn = mirrun.get_fn("lib", "::" + name, sig="&mut backends::Backend")
    ex = engine.Executor(fn)
    ev = ex.run()
    q = Q(ex.ctx)
    res = {"paths": ex.stats["nodes"], "functions": [fn.name]}
    rets = [e for e in ev if e.kind == "return"]
    writes = [e for e in ev if e.kind == "write"]
    asserts = [e for e in ev if e.kind == "assert"]
    cnt_place = None
    for w in writes:
        if getattr(w, "sort", None) == 64 and w.value:
            cnt_place = w.place
    if len(rets) != 1 or cnt_place is None:
        return dict(res, verdict="inconclusive", why="no counter write found")
    cnt0 = ex.initial.get(cnt_place)
    ret = rets[0]
    problems = []
    cw = [w for w in writes if w.place == cnt_place]
    sw = [w for w in writes if w.place != cnt_place]
    one = engine.bv(1, 64)
    zero = engine.bv(0, 64)
    if name == "inc_connections":
        st_eq = eq_calls(ev, "BackendStatus")
        if len(st_eq) != 1:
            return dict(res, verdict="inconclusive", why="status eq calls=%d" % len(st_eq))
        normal = st_eq[0].result.term
        for w in cw:
            v, _, d = q([w.guard, engine.NOT("(= %s (bvadd %s %s))" % (w.value, cnt0.term, one))])
            if v != "unsat":
                problems.append("active_connections is not incremented by exactly one (%s)" % v)
            v, _, d = q([w.guard, engine.NOT(normal)])
            if v != "unsat":
                problems.append("a non-Normal backend gets its connection count incremented (%s)" % v)
        v, _, d = q([ret.guard, normal] + [engine.NOT(w.guard) for w in cw])
        if v != "unsat":
            problems.append("a Normal backend can skip the increment (%s)" % v)
        if sw:
            problems.append("inc_connections writes %s" % sw[0].place)
        wit = [q([w.guard])[0] for w in cw]
    else:
        d3 = ex.initial.get("discr(%s)" % [k for k in ex.initial if k.startswith("discr((*_1).")][0][6:-1]) if any(k.startswith("discr((*_1).") for k in ex.initial) else None
        if d3 is None:
            return dict(res, verdict="inconclusive", why="status discriminant not read")
        for w in cw:
            v, _, d = q([w.guard, engine.NOT(engine.AND("(bvugt %s %s)" % (cnt0.term, zero), "(= %s (bvsub %s %s))" % (w.value, cnt0.term, one)))])
            if v != "unsat":
                problems.append("active_connections can wrap below zero or is not decremented by exactly one (%s)" % v)
            v, _, d = q([w.guard, "(= %s %s)" % (d3.term, engine.bv(2, 64))])
            if v != "unsat":
                problems.append("a Closed backend has its count mutated (%s)" % v)
        # overflow checks rustc emitted must be unreachable
        for a in asserts:
            v, _, d = q([a.guard])
            if v != "unsat":
                problems.append("subtraction can overflow (%s)" % v)
        # Closing (1) reaching zero is retired to Closed; nothing else changes the status
        def src_text(w):
            t = getattr(w, "text", "") or ""
            m = re.match(r"^(?:move|copy) (_\d+)$", t)
            if m:
                for blk in fn.blocks.values():
                    for st in blk["stmts"]:
                        if st.startswith(m.group(1) + " = "):
                            return st.split(" = ", 1)[1]
            return t
        closed_writes = [w for w in sw if "BackendStatus::Closed" in src_text(w)]
        if len(closed_writes) != len(sw) or not sw:
            problems.append("unexpected status writes: %s" % [src_text(w) for w in sw])
        for w in closed_writes:
            v, _, d = q([w.guard, engine.NOT(engine.AND("(= %s %s)" % (d3.term, engine.bv(1, 64)), "(bvule %s %s)" % (cnt0.term, one)))])
            if v != "unsat":
                problems.append("status set to Closed although the backend is not a Closing backend reaching zero (%s)" % v)
        v, _, d = q([ret.guard, "(= %s %s)" % (d3.term, engine.bv(1, 64)), "(bvule %s %s)" % (cnt0.term, one)] + [engine.NOT(w.guard) for w in closed_writes])
        if v != "unsat":
            problems.append("a Closing backend reaching zero is not retired (%s)" % v)
        # positive count on Normal/Closing is decremented
        v, _, d = q([ret.guard, engine.NOT("(= %s %s)" % (d3.term, engine.bv(2, 64))), "(bvugt %s %s)" % (cnt0.term, zero)] + [engine.NOT(w.guard) for w in cw])
        if v != "unsat":
            problems.append("a positive count is not decremented (%s)" % v)
        wit = [q([w.guard])[0] for w in cw + closed_writes]
    res["witness"] = "counter %s, %d counter writes, %d status writes, reachability %s" % (cnt_place, len(cw), len(sw), wit)
    res["witness_ok"] = bool(wit) and all(x == "sat" for x in wit)
    if problems:
        return dict(res, verdict="counterexample", text="; ".join(problems), model={"problems": problems}, queries=q.n, solver_s=q.secs,
                    replay={"reproduced": False, "why": "no native replay for this obligation"})
    return dict(res, verdict="holds", queries=q.n, solver_s=round(q.secs, 2))


def run(ob, tier):
    return {"predicate": predicate, "counters": counters}[ob["which"]](ob, tier)


# ---------------------------------------------------------------- candidate-set filters
def backend_fields():
    src = open(mirrun.REPO + "/lib/src/backends.rs").read()
    m = re.search(r"pub struct Backend \{(.*?)\n\}", src, re.S)
    return re.findall(r"^\s*(?:pub(?:\([\w:]+\))? )?(\w+):", m.group(1), re.M)


def filters(ob, tier):
    """the closures that build candidate sets are exactly their one-line predicates"""
    problems, wit, fnames, nodes = [], [], [], 0
    tq, ts = 0, 0.0
    bf = backend_fields()
    # (1) available_backends: backup == wanted && can_open()
    fn = mirrun.get_fn("lib", "::available_backends::{closure#0}")
    ex = engine.Executor(fn)
    ev = ex.run()
    q = Q(ex.ctx)
    fnames.append(fn.name)
    nodes += ex.stats["nodes"]
    ret = [e for e in ev if e.kind == "return"][0]
    r0 = ret.env["_0"].term
    co = [e for e in ev if e.kind == "call" and e.callee.endswith("Backend::can_open")]
    bools = {k: v for k, v in ex.initial.items() if v.sort == "Bool"}
    bfield = [k for k in bools if re.search(r"\.(\d+)$", k) and bf[int(re.search(r"\.(\d+)$", k).group(1))] == "backup" and not k.startswith("(*_1)")]
    cap = [k for k in bools if k not in bfield]
    if len(co) != 1 or len(bfield) != 1 or len(cap) != 1:
        return {"verdict": "inconclusive", "why": "available_backends closure shape: can_open=%d backup reads=%s captured=%s" % (len(co), bfield, cap)}
    same = "(= %s %s)" % (bools[bfield[0]].term, bools[cap[0]].term)
    for name, a in (("selects a backend whose backup flag differs from the requested tier or that cannot be opened", [ret.guard, r0, engine.NOT(engine.AND(same, co[0].guard, co[0].result.term))]),
                    ("drops an eligible backend of the requested tier", [ret.guard, engine.NOT(r0), same, co[0].guard, co[0].result.term]),
                    ("skips can_open for a backend of the requested tier", [ret.guard, same, engine.NOT(co[0].guard)])):
        v, _, d = q(a)
        if v != "unsat":
            problems.append("available_backends filter %s (%s)" % (name, v))
    wit.append(q([ret.guard, r0])[0])
    tq += q.n
    ts += q.secs
    # (2) fail-open: status == Normal && can_try() == Some(OKAY); no health, no backup test
    fn = mirrun.get_fn("lib", "::next_available_backend_with_key::{closure#0}")
    ex = engine.Executor(fn)
    ev = ex.run()
    q = Q(ex.ctx)
    fnames.append(fn.name)
    nodes += ex.stats["nodes"]
    ret = [e for e in ev if e.kind == "return"][0]
    r0 = ret.env["_0"].term
    st = eq_calls(ev, "BackendStatus")
    ct = [e for e in ev if e.kind == "call" and re.search(r"RetryPolicy>::can_try$", e.callee)]
    if len(st) != 1 or len(ct) != 1:
        return {"verdict": "inconclusive", "why": "fail-open closure shape: status eq=%d can_try=%d" % (len(st), len(ct))}
    pv = promoted_variant("lib", "::next_available_backend_with_key::{closure#0}", 0)
    if not (pv or "").endswith("BackendStatus::Normal"):
        problems.append("fail-open filter compares the status with %s" % pv)
    dsome = ex.initial.get("discr(%s)" % ct[0].dest)
    if dsome is None:
        return {"verdict": "inconclusive", "why": "can_try result never inspected"}
    okay = engine.AND("(= %s %s)" % (dsome.term, engine.bv(1, 64)),
                      "(= %s %s)" % (ex.initial["discr((%s as Some).0)" % ct[0].dest].term if ("discr((%s as Some).0)" % ct[0].dest) in ex.initial else "false", engine.bv(0, 64)))
    want = engine.AND(st[0].result.term, ct[0].guard, okay)
    v, _, d = q([ret.guard, r0, engine.NOT(want)])
    if v != "unsat":
        problems.append("fail-open filter admits a backend that is not Normal or is backing off (%s)" % v)
    v, _, d = q([ret.guard, engine.NOT(r0), st[0].result.term, ct[0].guard, okay])
    if v != "unsat":
        problems.append("fail-open filter drops a Normal, non-backing-off backend (%s)" % v)
    if [e for e in ev if e.kind == "call" and re.search(r"is_healthy|can_open", e.callee)]:
        problems.append("fail-open filter consults health (it must not: that is what fail-open means)")
    wit.append(q([ret.guard, r0])[0])
    tq += q.n
    ts += q.secs
    # (3) find_sticky: a sticky match is returned only if it can be opened.  The gate is one
    # of find_sticky's closures: whichever it is, its "accept" outcome must imply can_open()
    gate = None
    idx = mirrun._index["lib"]
    cl_names = sorted(n for n in idx if re.search(r"::find_sticky::\{closure#\d+\}$", n))
    seen_calls = []
    for n in cl_names:
        s0, e0, _ = idx[n][0]
        from .. import parse as _parse
        fn = _parse.load_function(mirrun.dump("lib"), s0, e0)
        ex = engine.Executor(fn)
        ev = ex.run()
        seen_calls += [e.callee.split("::")[-1] for e in ev if e.kind == "call" and re.search(r"Backend::(can_open|is_available)$", e.callee)]
        co = [e for e in ev if e.kind == "call" and e.callee.endswith("Backend::can_open")]
        if co:
            gate = (fn, ex, ev, co)
    if gate is None:
        problems.append("find_sticky never asks can_open() of the sticky backend (it uses %s): a backend inside its back-off window is returned" % (sorted(set(seen_calls)) or "no eligibility test"))
    else:
        fn, ex, ev, co = gate
        q = Q(ex.ctx)
        fnames.append(fn.name)
        nodes += ex.stats["nodes"]
        ret = [e for e in ev if e.kind == "return"][0]
        r0v = ret.env.get("_0")
        if r0v is not None and r0v.sort == "Bool":
            accept = r0v.term                     # a `filter` predicate
        else:
            accept = "(= %s %s)" % (ret.env["discr(_0)"].term, engine.bv(1, 64))   # and_then -> Some
        v, _, d = q([ret.guard, accept, engine.NOT(engine.AND(co[0].guard, co[0].result.term))])
        if v != "unsat":
            problems.append("find_sticky returns a sticky backend that cannot be opened (%s)" % v)
        v, _, d = q([ret.guard, engine.NOT(accept), co[0].guard, co[0].result.term])
        if v != "unsat":
            problems.append("find_sticky drops an openable sticky backend (%s)" % v)
        wit.append(q([ret.guard, accept])[0])
        tq += q.n
        ts += q.secs
    res = {"paths": nodes, "functions": fnames, "witness": "each filter can accept: %s" % wit, "witness_ok": all(x == "sat" for x in wit)}
    if problems:
        return dict(res, verdict="counterexample", text="; ".join(problems), model={"problems": problems}, queries=tq, solver_s=ts, replay={"reproduced": False, "why": "no native replay"})
    return dict(res, verdict="holds", queries=tq, solver_s=round(ts, 2))


def cascade(ob, tier):
    """next_available_backend_with_key: primary tier, else backup tier, else fail-open, else None"""
    fn = mirrun.get_fn("lib", "::next_available_backend_with_key", sig="&mut BackendList")
    ex = engine.Executor(fn)
    ev = ex.run()
    q = Q(ex.ctx)
    res = {"paths": ex.stats["nodes"], "functions": [fn.name]}
    av = [e for e in ev if e.kind == "call" and e.callee.endswith("::available_backends")]
    em = [e for e in ev if e.kind == "call" and e.callee.endswith("::is_empty")]
    pol = [e for e in ev if e.kind == "call" and re.search(r"LoadBalancingAlgorithm>::next_available_backend$", e.callee)]
    flt = [e for e in ev if e.kind == "call" and "Iterator>::filter::" in e.callee]
    rets = [e for e in ev if e.kind == "return"]
    if len(av) != 2 or len(em) != 3 or len(pol) != 2 or len(flt) != 1 or len(rets) != 1:
        return dict(res, verdict="inconclusive", why="shape: available_backends=%d is_empty=%d policy=%d filter=%d" % (len(av), len(em), len(pol), len(flt)))
    a1, a2 = av
    e1, e2, e3 = em
    problems = []
    if a1.args[1]["text"] != "const false" or a2.args[1]["text"] != "const true":
        problems.append("tiers are not asked in the order primary (backup=false) then backup (backup=true): %s, %s" % (a1.args[1]["text"], a2.args[1]["text"]))
    # is_empty is a function of the vector: when the backup tier was not fetched the second
    # emptiness test looks at the same, unchanged vector
    contract = [engine.OR(a2.guard, "(= %s %s)" % (e2.result.term, e1.result.term))]
    ret = rets[0]
    p_normal = [p for p in pol if True]
    checks = [
        ("the backup tier is consulted although a primary backend qualifies", [a2.guard, engine.NOT(e1.result.term)]),
        ("the backup tier is not consulted although no primary qualifies", [ret.guard, e1.result.term, engine.NOT(a2.guard)]),
        ("fail-open candidates are built although a primary or backup backend qualifies", [flt[0].guard, engine.NOT(e2.result.term)]),
        ("the policy is asked to pick from an empty tier", [pol[1].guard if pol[1].guard != pol[0].guard else "false", "false"]),
    ]
    # which policy call is the normal one (before the filter) and which the fail-open one
    normal = [p for p in pol if q(contract + [p.guard, flt[0].guard])[0] == "unsat"]
    failopen = [p for p in pol if p not in normal]
    if len(normal) != 1 or len(failopen) != 1:
        return dict(res, verdict="inconclusive", why="cannot tell the normal policy call from the fail-open one")
    checks = checks[:3] + [
        ("the policy picks from an empty primary/backup tier", [normal[0].guard, e2.result.term]),
        ("a non-empty primary/backup tier is not handed to the policy", [ret.guard, engine.NOT(e2.result.term), engine.NOT(normal[0].guard)]),
        ("the fail-open policy call happens with an empty fail-open set", [failopen[0].guard, e3.result.term]),
        ("a non-empty fail-open set is not used", [ret.guard, e2.result.term, e3.guard, engine.NOT(e3.result.term), engine.NOT(failopen[0].guard)]),
        ("two selections are made for one request", [normal[0].guard, failopen[0].guard]),
    ]
    for name, a in checks:
        v, _, d = q(contract + a)
        if v == "inconclusive":
            return dict(res, verdict="inconclusive", why=d)
        if v != "unsat":
            problems.append("%s (%s)" % (name, v))
    # the result is the policy's pick
    d0 = ret.env.get("discr(_0)")
    wit = [q(contract + [normal[0].guard])[0], q(contract + [failopen[0].guard])[0], q(contract + [a2.guard])[0]]
    res["witness"] = "normal / fail-open / backup paths reachable: %s" % wit
    res["witness_ok"] = all(x == "sat" for x in wit)
    if problems:
        return dict(res, verdict="counterexample", text="; ".join(problems), model={"problems": problems}, queries=q.n, solver_s=q.secs, replay={"reproduced": False, "why": "no native replay"})
    return dict(res, verdict="holds", queries=q.n, solver_s=round(q.secs, 2))


_run0 = run


def run(ob, tier):
    if ob["which"] == "filters":
        return filters(ob, tier)
    if ob["which"] == "cascade":
        return cascade(ob, tier)
    return _run0(ob, tier)


def readd(ob, tier):
    """BackendList::add_backend: re-adding an existing (backend_id, address) updates its role
    (backup flag), sticky id and load-balancing parameters in place"""
    fn = mirrun.get_fn("lib", "::add_backend", sig="&mut BackendList, _2: backends::Backend")
    ex = engine.Executor(fn, loop_bound=lambda f, h: 2)
    ev = ex.run()
    q = Q(ex.ctx)
    res = {"paths": ex.stats["nodes"], "functions": [fn.name]}
    bf = backend_fields()
    bi = bf.index("backup")
    ws = [e for e in ev if e.kind == "write" and re.search(r"\.%d$" % bi, e.place) and getattr(e, "sort", None) == "Bool"]
    upd = [e for e in ev if e.kind == "call" and re.search(r"clone_from$", e.callee)]
    push = [e for e in ev if e.kind == "call" and re.search(r"Vec::<.*>::push$", e.callee)]
    rets = [e for e in ev if e.kind == "return"]
    if len(rets) != 1 or not push:
        return dict(res, verdict="inconclusive", why="shape: push=%d returns=%d" % (len(push), len(rets)))
    problems = []
    newflag = ex.initial.get("_2.%d" % bi)
    if not ws:
        problems.append("re-adding an existing backend never updates its backup flag (the worker keeps routing with the old role)")
    else:
        for w in ws:
            if newflag is None or w.value != newflag.term:
                v, _, d = q([w.guard, engine.NOT("(= %s %s)" % (w.value, newflag.term if newflag else "false"))])
                if v != "unsat":
                    problems.append("the backup flag is not taken from the re-added backend (%s)" % v)
        # on every returning path: either a fresh push, or the in-place update
        v, _, d = q([rets[0].guard] + [engine.NOT(p.guard) for p in push] + [engine.NOT(w.guard) for w in ws])
        if v != "unsat":
            problems.append("a path neither inserts the backend nor updates its role (%s)" % v)
    if len(upd) < 2:
        problems.append("sticky_id / load_balancing_parameters are not both refreshed on re-add (%d clone_from calls)" % len(upd))
    wit = [q([w.guard])[0] for w in ws] + [q([p.guard])[0] for p in push]
    res["witness"] = "update-in-place and insert paths reachable: %s" % wit
    res["witness_ok"] = bool(wit) and all(x == "sat" for x in wit)
    if problems:
        return dict(res, verdict="counterexample", text="; ".join(problems), model={"problems": problems}, queries=q.n, solver_s=q.secs, replay={"reproduced": False, "why": "no native replay"})
    return dict(res, verdict="holds", queries=q.n, solver_s=round(q.secs, 2))


_run1 = run


def run(ob, tier):
    if ob["which"] == "readd":
        return readd(ob, tier)
    return _run1(ob, tier)


# ---------------------------------------------------------------- back-off window arming
_run2 = run


def backoff(ob, tier):
    """ExponentialBackoffPolicy::fail: a failure reported outside the current back-off window
    always arms a new one (wait, last_try and the try counter are all rewritten), whatever
    the counter already is; a failure inside the window changes nothing.  can_try() looks only
    at (last_try, wait), so a failure that arms nothing lets the next request through at once."""
    src = open(mirrun.REPO + "/lib/src/retry.rs").read()
    m = re.search(r"pub struct ExponentialBackoffPolicy \{(.*?)\n\}", src, re.S)
    fields = re.findall(r"^\s*(?:pub(?:\([\w:]+\))? )?(\w+):", m.group(1), re.M)
    fn = mirrun.get_fn("lib", "::fail", sig="&mut ExponentialBackoffPolicy")
    ex = engine.Executor(fn)
    ev = ex.run()
    q = Q(ex.ctx)
    res = {"paths": ex.stats["nodes"], "functions": [fn.name]}
    inside = [e for e in ev if e.kind == "call" and re.search(r"<Duration as PartialOrd>::(lt|le|gt|ge)$", e.callee)]
    rets = [e for e in ev if e.kind == "return"]
    writes = {f: [e for e in ev if e.kind == "write" and e.place == "(*_1).%d" % fields.index(f)] for f in ("wait", "last_try", "current_tries")}
    if len(inside) != 1 or not inside[0].callee.endswith("::lt") or len(rets) != 1:
        return dict(res, verdict="inconclusive", why="shape: window tests=%s" % [e.callee.split("::")[-1] for e in inside])
    el = [e for e in ev if e.kind == "call" and e.callee.endswith("Instant::elapsed")]
    problems = []
    # the window test is `last_try.elapsed() < wait`
    a0 = inside[0].args[0]["val"].ref
    if not el or a0 != el[0].dest or inside[0].args[1]["val"].ref != "(*_1).%d" % fields.index("wait"):
        problems.append("the back-off test is not `last_try.elapsed() < wait`")
    L = inside[0].result.term
    for f, ws in writes.items():
        if q([rets[0].guard, engine.NOT(engine.AND(inside[0].guard, L))] + [engine.NOT(w.guard) for w in ws])[0] != "unsat":
            problems.append("a failure outside the back-off window can return without rewriting %s (no new window is armed: the backend is retried at once)" % f)
        for w in ws:
            if q([w.guard, inside[0].guard, L])[0] != "unsat":
                problems.append("%s is rewritten by a failure inside the window" % f)
    wit = [q([rets[0].guard, inside[0].guard, L])[0], q([rets[0].guard, inside[0].guard, engine.NOT(L)])[0]]
    res["witness"] = "inside / outside the window both reachable: %s" % wit
    res["witness_ok"] = all(w == "sat" for w in wit)
    res["queries"], res["solver_s"] = q.n, round(q.secs, 2)
    if problems:
        return dict(res, verdict="counterexample", text="; ".join(problems), model={"problems": problems}, replay={"reproduced": False, "why": "no native replay"})
    return dict(res, verdict="holds")


def run(ob, tier):
    if ob["which"] == "backoff":
        return backoff(ob, tier)
    return _run2(ob, tier)


# ---------------------------------------------------------------- Maglev: affinity of a key
_run3 = run


def maglev(ob, tier):
    """Maglev::next_available_backend: the stateful round-robin fallback (the only source of
    key instability while the eligible set is unchanged) is reached only after the probe loop
    walked the *whole* lookup table: the loop is `0..self.size` and is left early only by
    returning a backend.  A shorter probe budget makes a key whose next slots all belong to
    ineligible backends bounce between the eligible ones."""
    src = open(mirrun.REPO + "/lib/src/load_balancing.rs").read()
    m = re.search(r"pub struct Maglev \{(.*?)\n\}", src, re.S)
    fields = re.findall(r"^\s*(?:pub(?:\([\w:]+\))? )?(\w+):", re.sub(r"//.*", "", m.group(1)), re.M)
    size_place = "(*_1).%d" % fields.index("size")
    fn = mirrun.get_fn("lib", "::next_available_backend", sig="&mut load_balancing::Maglev")
    ex = engine.Executor(fn, loop_bound=lambda f, h: 1, max_nodes=200000)
    ev = ex.run()
    for i, e in enumerate(ev):
        e.seq = i
    q = Q(ex.ctx)
    res = {"paths": ex.stats["nodes"], "functions": [fn.name]}
    fallback = [e for e in ev if e.kind == "call" and re.search(r"RoundRobin.*next_available_backend$|<RoundRobin as LoadBalancingAlgorithm>::next_available_backend$", e.callee)]
    nexts = [e for e in ev if e.kind == "call" and re.search(r"<std::ops::Range<usize> as Iterator>::next$", e.callee)]
    stmts = [(bb, st) for bb, b in fn.blocks.items() for st in b["stmts"]]
    ranges = [(bb, st) for bb, st in stmts if re.search(r"= std::ops::Range::<usize> \{ start: const 0_usize, end: (?:move|copy) (_\d+) \}$", st)]
    problems = []
    if not fallback or not nexts or not ranges:
        return dict(res, verdict="inconclusive", why="shape: fallback calls=%d range loops=%d range literals=%d" % (len(fallback), len(nexts), len(ranges)))
    # the probe range ends at self.size
    full = False
    for bb, st in ranges:
        loc = re.search(r"end: (?:move|copy) (_\d+) \}$", st).group(1)
        if any(re.match(r"^%s = copy \(\(\*_1\)\.%d: usize\)$" % (re.escape(loc), fields.index("size")), s2) for _, s2 in stmts):
            full = True
    if not full:
        problems.append("the probe loop does not run over 0..self.size: the round-robin fallback (stateful) can answer for a key although an eligible backend owns a later slot of the table, so the key is not pinned while the eligible set is unchanged")
    # keyed fallback only after the iterator was exhausted
    keyed_fb = [f for f in fallback if any(n.seq < f.seq for n in nexts)]
    for f in keyed_fb:
        exhausted = []
        for n in nexts:
            if n.seq < f.seq:
                d = n.result_discr or ex.initial.get("discr(%s)" % n.dest)
                exhausted.append(engine.AND(n.guard, "(= %s %s)" % (d.term, engine.bv(0, 64))))
        if q([f.guard, engine.NOT(engine.OR(*exhausted))])[0] != "unsat":
            problems.append("the round-robin fallback is reachable before the probe loop is exhausted")
    wit = [q([engine.OR(*[f.guard for f in fallback])])[0]]
    res["witness"] = "fallback reachable: %s; %d fallback sites, probe bound is self.size: %s" % (wit, len(fallback), full)
    res["witness_ok"] = all(w == "sat" for w in wit)
    res["queries"], res["solver_s"] = q.n, round(q.secs, 2)
    if problems:
        return dict(res, verdict="counterexample", text="; ".join(problems), model={"problems": problems}, replay={"reproduced": False, "why": "no native replay"})
    return dict(res, verdict="holds")


def run(ob, tier):
    if ob["which"] == "maglev":
        return maglev(ob, tier)
    return _run3(ob, tier)
