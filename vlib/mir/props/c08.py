"""C08 — every worker command is answered with exactly one final status (engine M)."""
import os
import re

from .. import engine, solve
from ... import mirrun
from . import c07_atomic

PUSH = r"(^|::)push_queue$"
# verbs for which notify_proxys queues nothing (no proxy destination per get_destinations -
# pinned by the Kani harnesses - and no listener special case)
NO_ANSWER_IN_PROXYS = {
    "ConfigureMetrics", "SetMetricDetail", "QueryMetrics", "Logging", "QueryClustersHashes", "QueryClusterById",
    "QueryClustersByDomain", "SetMaxConnectionsPerIp", "QueryMaxConnectionsPerIp", "ReturnListenSockets",
    "SaveState", "CountRequests", "QueryCertificatesFromTheState", "QueryHealthChecks", "LoadState", "ListWorkers",
    "ListFrontends", "ListListeners", "LaunchWorker", "UpgradeMain", "UpgradeWorker", "SubscribeEvents", "ReloadConfiguration",
}


class Q:
    def __init__(self, ctx):
        self.ctx, self.n, self.secs = ctx, 0, 0.0

    def __call__(self, asserts, get=()):
        v, model, s, detail = solve.check(self.ctx.script(asserts, get), timeout=300)
        self.n += 1
        self.secs += s
        return v, model, detail


_closure_cache = {}


def closure_answers(crate, callee, stats):
    """how many final answers does the closure passed to this call queue?
    -> 'one' | 'zero' | 'varies' | None (no closure argument)"""
    m = re.search(r"\{closure@([\w/.\-]+:\d+:\d+): \d+:\d+\}", callee)
    if not m:
        return None
    key = m.group(0)
    if key in _closure_cache:
        return _closure_cache[key]
    path = mirrun.dump(crate)
    idx = mirrun._index[crate]
    cands = [(s, e) for n in idx for (s, e, head) in idx[n] if re.search(r"\(_1: (&mut |&)?%s[,)]" % re.escape(key), head)]
    if len(cands) != 1:
        _closure_cache[key] = None
        return None
    from .. import parse
    fn = parse.load_function(path, *cands[0])
    ex = engine.Executor(fn, loop_bound=lambda f, h: 2)
    ev = ex.run()
    pushes = [e for e in ev if e.kind == "call" and re.search(PUSH, e.callee)]
    rets = [e for e in ev if e.kind == "return"]
    stats["closures"] = stats.get("closures", 0) + 1
    if not pushes:
        r = "zero"
    elif len(rets) != 1:
        r = "varies"
    else:
        q = Q(ex.ctx)
        gs = [p.guard for p in pushes]
        v0, _, _ = q([rets[0].guard] + [engine.NOT(g) for g in gs])
        cnt = " ".join("(ite %s (_ bv1 16) (_ bv0 16))" % g for g in gs)
        v2, _, _ = q([rets[0].guard, "(bvugt (bvadd %s (_ bv0 16)) (_ bv1 16))" % cnt])
        r = "one" if (v0 == "unsat" and v2 == "unsat") else "varies"
        stats["queries"] = stats.get("queries", 0) + q.n
        stats["secs"] = stats.get("secs", 0.0) + q.secs
    _closure_cache[key] = r
    return r


def count_expr(gs):
    if not gs:
        return "(_ bv0 16)"
    return "(bvadd %s (_ bv0 16))" % " ".join("(ite %s (_ bv1 16) (_ bv0 16))" % g for g in gs)


def notify(ob, tier):
    """Server::notify: worker-level verbs answer exactly once and return; everything else is
    delegated to notify_proxys exactly once"""
    fn = mirrun.get_fn("lib", "::notify", sig="&mut server::Server")
    ex = engine.Executor(fn, loop_bound=lambda f, h: 2, max_nodes=200000)
    ev = ex.run()
    q = Q(ex.ctx)
    stats = {}
    res = {"paths": ex.stats["nodes"], "functions": [fn.name]}
    own, varies = [], []
    for e in ev:
        if e.kind != "call":
            continue
        if re.search(PUSH, e.callee):
            own.append(e)
        else:
            ca = closure_answers("lib", e.callee, stats)
            if ca == "one":
                own.append(e)
            elif ca == "varies":
                varies.append(e)
    deleg = [e for e in ev if e.kind == "call" and re.search(r"::notify_proxys$", e.callee)]
    rets = [e for e in ev if e.kind == "return"]
    if len(rets) != 1 or not own or not deleg:
        return dict(res, verdict="inconclusive", why="own=%d delegations=%d returns=%d" % (len(own), len(deleg), len(rets)))
    if varies:
        return dict(res, verdict="inconclusive", why="closure with a path-dependent number of answers: %s" % varies[0].callee[:80])
    ret = rets[0].guard
    go, gd = [e.guard for e in own], [e.guard for e in deleg]
    res["witness"] = "%d own answer sites (%d through closures), %d delegation site(s)" % (len(own), stats.get("closures", 0), len(deleg))
    w1, _, _ = q([ret, engine.OR(*go)])
    w2, _, _ = q([ret, engine.OR(*gd)])
    res["witness_ok"] = (w1 == "sat" and w2 == "sat" and len(own) >= 10)
    bad = []
    v, model, d = q([ret, "(bvugt %s (_ bv1 16))" % count_expr(go)], get=go)
    if v == "inconclusive":
        return dict(res, verdict="inconclusive", why=d)
    if v == "sat":
        hit = sorted({e.bb for e in own if model.get(e.guard) is True})
        bad.append("a worker-level verb queues two final answers (blocks %s)" % ", ".join(hit))
    v, model, d = q([ret] + [engine.NOT(g) for g in go + gd])
    if v == "inconclusive":
        return dict(res, verdict="inconclusive", why=d)
    if v == "sat":
        bad.append("a path returns with no answer queued and no delegation to notify_proxys")
    v, _, d = q([ret, "(bvugt %s (_ bv1 16))" % count_expr(gd)])
    if v == "sat":
        bad.append("a request is delegated to notify_proxys twice")
    # a verb that was answered here may fall through to notify_proxys only if it has no
    # proxy destination and no listener special case there (else it is answered again)
    src = open(mirrun.REPO + "/command/src/proto/command.rs").read()
    m = re.search(r"pub enum RequestType \{(.*?)\n    \}", src, re.S)
    variants = re.findall(r"^\s+([A-Z]\w+)\(", m.group(1), re.M)
    dkey = [k for k in ex.initial if re.match(r"^discr\(\(.* as Some\)\.0\)$", k)]
    if len(dkey) != 1:
        return dict(res, verdict="inconclusive", why="request type discriminant not found (%s)" % dkey)
    D = ex.initial[dkey[0]].term
    nodest = [i for i, v0 in enumerate(variants) if v0 in NO_ANSWER_IN_PROXYS]
    in_nodest = engine.OR(*["(= %s %s)" % (D, engine.bv(i, 64)) for i in nodest])
    v, model, d = q([ret, engine.OR(*go), engine.OR(*gd), engine.NOT(in_nodest)], get=[D])
    if v == "inconclusive":
        return dict(res, verdict="inconclusive", why=d)
    if v == "sat":
        idx = model.get(D)
        bad.append("%s is answered by notify and then handed to notify_proxys, which answers it again" % (variants[idx] if idx is not None and idx < len(variants) else "a verb"))
    tot_q, tot_s = q.n + stats.get("queries", 0), q.secs + stats.get("secs", 0.0)
    if bad:
        return dict(res, verdict="counterexample", text="; ".join(bad), model={"problems": bad}, queries=tot_q, solver_s=tot_s,
                    replay={"reproduced": False, "why": "no native replay for this obligation"})
    return dict(res, verdict="holds", queries=tot_q, solver_s=round(tot_s, 2))


SPECIAL = r"::notify_(add|update)_\w+_listener$|::notify_(de)?activate_listener$|<ListenerType as TryFrom<i32>>::try_from$|ListenerType::try_from"


def notify_proxys(ob, tier):
    """Server::notify_proxys under the get_destinations contract (listener verbs have no
    proxy destination; pinned by the Kani harness c08_get_destinations_contract): at most one
    final answer on every path, and no answer only when there is neither a destination nor a
    listener special case"""
    fn = mirrun.get_fn("lib", "::notify_proxys", sig="&mut server::Server")
    ex = engine.Executor(fn, loop_bound=lambda f, h: 2, max_nodes=200000)
    ev = ex.run()
    q = Q(ex.ctx)
    res = {"paths": ex.stats["nodes"], "functions": [fn.name]}
    pushes = [e for e in ev if e.kind == "call" and re.search(PUSH, e.callee)]
    rets = [e for e in ev if e.kind == "return"]
    dests = [e for e in ev if e.kind == "call" and re.search(r"::get_destinations$", e.callee)]
    special = [e for e in ev if e.kind == "call" and re.search(SPECIAL, e.callee)]
    if len(rets) != 1 or len(dests) != 1 or not special or len(pushes) < 10:
        return dict(res, verdict="inconclusive", why="pushes=%d dests=%d special=%d returns=%d" % (len(pushes), len(dests), len(special), len(rets)))
    d = dests[0].dest
    flags = [ex.initial.get("%s.%d" % (d, i)) for i in range(4)]
    if any(f is None or f.sort != "Bool" for f in flags):
        return dict(res, verdict="inconclusive", why="destination flags not found as four bool fields of %s" % d)
    any_flag = engine.OR(*[f.term for f in flags])
    ret = rets[0].guard
    gs = [p.guard for p in pushes]
    contract = [engine.NOT(engine.AND(s.guard, any_flag)) for s in special]
    res["witness"] = "%d answer sites, %d listener special-case sites, flags %s" % (len(pushes), len(special), [f.term for f in flags])
    w1, _, _ = q(contract + [ret, any_flag])
    w2, _, _ = q(contract + [ret, engine.OR(*[s.guard for s in special])])
    res["witness_ok"] = (w1 == "sat" and w2 == "sat")
    bad = []
    v, model, dd = q(contract + [ret, "(bvugt %s (_ bv1 16))" % count_expr(gs)], get=gs)
    if v == "inconclusive":
        return dict(res, verdict="inconclusive", why=dd)
    if v == "sat":
        hit = sorted({e.bb for e in pushes if model.get(e.guard) is True})
        bad.append("a request gets two final answers (blocks %s)" % ", ".join(hit))
    # zero answers only without destination and without special case
    v, model, dd = q(contract + [ret] + [engine.NOT(g) for g in gs] + [engine.OR(any_flag, *[s.guard for s in special])])
    if v == "inconclusive":
        return dict(res, verdict="inconclusive", why=dd)
    if v == "sat":
        bad.append("a request with a proxy destination or a listener special case gets no answer")
    if bad:
        return dict(res, verdict="counterexample", text="; ".join(bad), model={"problems": bad}, queries=q.n, solver_s=q.secs,
                    replay={"reproduced": False, "why": "no native replay for this obligation"})
    return dict(res, verdict="holds", queries=q.n, solver_s=round(q.secs, 2))


def run(ob, tier):
    if ob["which"] == "recorded":
        return c07_atomic.run(dict(ob, mode="complete"), tier)
    return {"notify": notify, "notify_proxys": notify_proxys}[ob["which"]](ob, tier)


# ---------------------------------------------------------------- worker applies what it is told / answers survive
_run_c08 = run


def add_cluster_knobs(ob, tier):
    """Server::add_cluster (worker): every per-cluster setter of the BackendMap is called on
    every path, i.e. the worker applies each knob of the AddCluster as given — also when the
    message carries None for it (ConfigState::add_cluster replaces the whole cluster, so a
    conditional setter makes the worker's behaviour drift from its own queryable view)."""
    fn = mirrun.get_fn("lib", "::add_cluster", sig="&mut server::Server")
    ex = engine.Executor(fn, loop_bound=lambda f, h: 1)
    ev = ex.run()
    q = Q(ex.ctx)
    res = {"paths": ex.stats["nodes"], "functions": [fn.name]}
    setters = [e for e in ev if e.kind == "call" and re.search(r"BackendMap::set_\w+$", e.callee)]
    rets = [e for e in ev if e.kind == "return"]
    src = open(mirrun.REPO + "/lib/src/server.rs").read()
    i = src.index("fn add_cluster(")
    want = len(re.findall(r"backends\s*\.\s*set_\w+\(|\.set_\w+\(", src[i:src.index("\n    }\n", i)]))
    if len(rets) != 1 or not setters:
        return dict(res, verdict="inconclusive", why="shape: setters=%d returns=%d" % (len(setters), len(rets)))
    problems = []
    for c in setters:
        if q([rets[0].guard, engine.NOT(c.guard)])[0] != "unsat":
            problems.append("%s is skipped on some path: the worker keeps the previous value of that knob while its state view shows the new one" % c.callee.split("::")[-1])
    if len(setters) < 3:
        problems.append("add_cluster applies fewer than three knobs (%d)" % len(setters))
    wit = [q([rets[0].guard])[0]]
    res["witness"] = "return reachable: %s; %d BackendMap setters" % (wit, len(setters))
    res["witness_ok"] = all(w == "sat" for w in wit)
    res["queries"], res["solver_s"] = q.n, round(q.secs, 2)
    if problems:
        return dict(res, verdict="counterexample", text="; ".join(problems), model={"problems": problems}, replay={"reproduced": False, "why": "no native replay"})
    return dict(res, verdict="holds")


def queue_discipline(ob, tier):
    """Server::send_queue: a queued response leaves the queue only by being written: the queue
    is only touched through pop_front / push_front, and a response whose write_message failed
    is pushed back to the front; a bulk drain whose loop can exit early throws away every
    response behind the one that did not fit (commands executed, never answered)."""
    fn = mirrun.get_fn("lib", "send_queue::{closure#0}", sig="VecDeque<WorkerResponse>")
    ex = engine.Executor(fn, loop_bound=lambda f, h: 1)
    ev = ex.run()
    for i, e in enumerate(ev):
        e.seq = i
    q = Q(ex.ctx)
    res = {"paths": ex.stats["nodes"], "functions": [fn.name]}
    dm = {d.dest for d in ev if d.kind == "call" and d.callee.endswith("DerefMut>::deref_mut") and "VecDeque<WorkerResponse>" in d.callee}
    touch = [e for e in ev if e.kind == "call" and e.args and e.args[0]["text"].split()[-1] in dm]
    writes = [e for e in ev if e.kind == "call" and e.callee.endswith("::write_message")]
    if not touch or not writes:
        return dict(res, verdict="inconclusive", why="shape: queue mutations=%d write_message calls=%d" % (len(touch), len(writes)))
    problems = []
    pops, pushes = [], []
    for c in touch:
        name = re.sub(r"::<.*?>(?=::|$)", "", c.callee).split("::")[-1]
        if name == "pop_front":
            pops.append(c)
        elif name == "push_front":
            pushes.append(c)
        elif q([c.guard])[0] != "unsat":
            problems.append("the response queue is emptied through VecDeque::%s: responses not yet written are dropped when the loop exits early" % name)
    for w in writes:
        it = [p for p in pushes if p.node[1] == w.node[1] and p.seq > w.seq]
        failed = [e for e in ev if e.kind == "discr_read" and e.place == w.dest and e.node[1] == w.node[1] and e.seq > w.seq]
        bad = engine.OR(*[engine.AND(f.guard, "(= %s %s)" % (f.term, engine.bv(1, 64))) for f in failed]) if failed else None
        if bad is None:
            problems.append("the result of write_message is not inspected")
            continue
        if q([bad, engine.NOT(engine.OR(*[p.guard for p in it]))])[0] != "unsat":
            problems.append("a response whose write_message failed is not put back at the front of the queue")
        for p in it:
            if q([p.guard, engine.NOT(bad)])[0] != "unsat":
                problems.append("a response is pushed back although it was written")
    wit = [q([engine.OR(*[w.guard for w in writes])])[0]]
    res["witness"] = "write_message reachable: %s; %d pops, %d push-backs" % (wit, len(pops), len(pushes))
    res["witness_ok"] = all(w == "sat" for w in wit) and bool(pops)
    res["queries"], res["solver_s"] = q.n, round(q.secs, 2)
    if problems:
        return dict(res, verdict="counterexample", text="; ".join(sorted(set(problems))), model={"problems": problems}, replay={"reproduced": False, "why": "no native replay"})
    return dict(res, verdict="holds")


def run(ob, tier):
    if ob["which"] == "add_cluster_knobs":
        return add_cluster_knobs(ob, tier)
    if ob["which"] == "queue_discipline":
        return queue_discipline(ob, tier)
    return _run_c08(ob, tier)
