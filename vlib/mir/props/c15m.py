"""C15 — two stateful guards of the H2 front end that the stateless-decoder harnesses of
c15.rs cannot see (engine M).

shrink   Context::shrink_trailing_recycle: stream slots are addressed by index from the
         per-connection maps, so the slot vector may only lose *trailing* recycled slots:
         every mutation of `self.streams` is a Vec::pop taken right after `last()` answered
         "is Recycle" (the closure is decided to be exactly `state == Recycle`).  Cutting the
         vector anywhere else leaves dangling indices -> out-of-bounds panic of the worker.
contfit  ConnectionH2::handle_continuation_header_state: the CONTINUATION payload is only
         expected (expect_read armed) when it fits the *remaining* space of the connection
         buffer (`available_space()`), otherwise GOAWAY; a payload that can never be read
         parks the connection with READABLE interest gone (wedged until the idle timeout)."""
import re

from .. import engine
from ... import mirrun
from .c16 import Q, closure_of


def fields_of(path, struct):
    src = open(mirrun.REPO + path).read()
    m = re.search(r"pub struct %s(?:<[^{]*>)? \{(.*?)\n\}" % struct, src, re.S)
    return re.findall(r"^\s*(?:pub(?:\([\w:]+\))? )?(\w+):", re.sub(r"//.*", "", m.group(1)), re.M)


def shrink(ob, tier):
    fn = mirrun.get_fn("lib", "::shrink_trailing_recycle", sig="&mut mux::Context<L>")
    ex = engine.Executor(fn, loop_bound=lambda f, h: 2)
    ev = ex.run()
    for i, e in enumerate(ev):
        e.seq = i
    q = Q(ex.ctx)
    res = {"paths": ex.stats["nodes"], "functions": [fn.name]}
    place = "(*_1).%d" % fields_of("/lib/src/protocol/mux/mod.rs", "Context").index("streams")
    mut = [e for e in ev if e.kind == "call" and any(a["val"].ref == place and a["val"].mut for a in e.args)]
    tests = [e for e in ev if e.kind == "call" and re.search(r"Option::<&.*Stream>::is_some_and::<", e.callee)]
    lasts = [e for e in ev if e.kind == "call" and re.search(r"<impl \[.*Stream\]>::last$", e.callee)]
    problems = []
    if not mut:
        return dict(res, verdict="inconclusive", why="no mutation of self.streams found")
    for c in mut:
        name = re.sub(r"::<.*?>(?=::|$)", "", c.callee).split("::")[-1]
        if name != "pop":
            if q([c.guard])[0] != "unsat":
                problems.append("self.streams is cut through Vec::%s: slots other than trailing recycled ones can be dropped (cached slot indices dangle)" % name)
            continue
        before = [t for t in tests if t.seq < c.seq]
        if not before or q([c.guard, engine.NOT(engine.OR(*[engine.AND(t.guard, t.result.term) for t in before[-1:]]))])[0] != "unsat":
            problems.append("a slot is popped without `last()` having been seen recycled")
    if not lasts and not problems:
        problems.append("the test is not made on the last slot")
    # the closure is `s.state == StreamState::Recycle` (the compared constant is a promoted
    # whose body is in the dump)
    for t in tests[:1]:
        cf = closure_of(t.callee)
        if cf is None:
            problems.append("is-recycled closure not found")
            continue
        res["functions"].append(cf.name)
        state_i = fields_of("/lib/src/protocol/mux/stream.rs", "Stream").index("state")
        ex2 = engine.Executor(cf)
        ev2 = ex2.run()
        eq = [e for e in ev2 if e.kind == "call" and e.callee.endswith("<StreamState as PartialEq>::eq")]
        r2 = [e for e in ev2 if e.kind == "return"]
        ok = False
        if len(eq) == 1 and len(r2) == 1 and eq[0].args[0]["val"].ref == "(*_2).%d" % state_i and r2[0].env.get("_0") is not None \
                and r2[0].env["_0"].term == eq[0].result.term:
            loc = eq[0].args[1]["text"].split()[-1]
            m = None
            for b in cf.blocks.values():
                for st in b["stmts"]:
                    m = m or re.match(r"^%s = const (.*promoted\[\d+\])$" % re.escape(loc), st)
            if m:
                tail = m.group(1).split("::")[-3:]
                body, grab = [], False
                with open(mirrun.dump("lib"), errors="replace") as f:
                    for line in f:
                        if line.startswith("const ") and line.rstrip().endswith("= {") and all(x in line for x in tail):
                            grab = True
                        elif grab:
                            if line.startswith("}"):
                                break
                            body.append(line.strip())
                ok = any(re.match(r"^_\d+ = (\w+::)*StreamState::Recycle;$", b) for b in body)
        if not ok:
            problems.append("the slot test is not `state == StreamState::Recycle`")
    wit = [q([engine.OR(*[c.guard for c in mut])])[0]]
    res["witness"] = "a slot removal is reachable: %s; %d mutation sites, %d recycled tests" % (wit, len(mut), len(tests))
    res["witness_ok"] = all(w == "sat" for w in wit)
    res["queries"], res["solver_s"] = q.n, round(q.secs, 2)
    if problems:
        return dict(res, verdict="counterexample", text="; ".join(problems), model={"problems": problems}, replay={"reproduced": False, "why": "no native replay"})
    return dict(res, verdict="holds")


def contfit(ob, tier):
    fn = mirrun.get_fn("lib", "::handle_continuation_header_state")
    ex = engine.Executor(fn, loop_bound=lambda f, h: 1)
    ev = ex.run()
    for i, e in enumerate(ev):
        e.seq = i
    q = Q(ex.ctx)
    res = {"paths": ex.stats["nodes"], "functions": [fn.name]}
    cf = fields_of("/lib/src/protocol/mux/h2.rs", "ConnectionH2")
    arm = [e for e in ev if e.kind == "write" and e.place == "(*_1).%d" % cf.index("expect_read")]
    space = [e for e in ev if e.kind == "call" and e.callee.endswith("::available_space") and e.result is not None]
    goaway = [e for e in ev if e.kind == "call" and e.callee.endswith("::goaway")]
    pl = fn.debug.get("payload_len")
    if not arm or pl is None or not goaway:
        return dict(res, verdict="inconclusive", why="shape: expect_read writes=%d payload_len=%s goaway=%d" % (len(arm), pl, len(goaway)))
    problems = []
    for a in arm:
        fits = []
        for s in space:
            p = s.env.get(pl)
            if s.seq < a.seq and p is not None and p.term:
                p64 = "((_ zero_extend %d) %s)" % (64 - p.sort, p.term) if p.sort != 64 else p.term
                fits.append(engine.AND(s.guard, "(bvule %s %s)" % (p64, s.result.term)))
        if q([a.guard, engine.NOT(engine.OR(*fits))])[0] != "unsat":
            problems.append("a CONTINUATION payload is expected although it was not checked against the remaining space of the connection buffer (it can never be read: the connection is parked instead of answered with GOAWAY)")
    # and too large => GOAWAY (not a silent return)
    rets = [e for e in ev if e.kind == "return"]
    for s in space:
        p = s.env.get(pl)
        if p is None or not p.term:
            continue
        p64 = "((_ zero_extend %d) %s)" % (64 - p.sort, p.term) if p.sort != 64 else p.term
        later = [g.guard for g in goaway if g.seq > s.seq]
        if q([rets[0].guard, s.guard, "(bvugt %s %s)" % (p64, s.result.term), engine.NOT(engine.OR(*later))])[0] != "unsat":
            problems.append("a CONTINUATION payload larger than the remaining buffer space is not answered with GOAWAY")
    wit = [q([engine.OR(*[a.guard for a in arm])])[0], q([engine.OR(*[g.guard for g in goaway])])[0]]
    res["witness"] = "accept / goaway reachable: %s; %d available_space() observations" % (wit, len(space))
    res["witness_ok"] = all(w == "sat" for w in wit)
    res["queries"], res["solver_s"] = q.n, round(q.secs, 2)
    if problems:
        return dict(res, verdict="counterexample", text="; ".join(sorted(set(problems))), model={"problems": problems}, replay={"reproduced": False, "why": "no native replay"})
    return dict(res, verdict="holds")


def run(ob, tier):
    return {"shrink": shrink, "contfit": contfit}[ob["which"]](ob, tier)
