"""C04 — precedence inside the host tree and order stability of the pre/post rule lists
(engine M).

trie      TrieNode::lookup_with_path, one node of the walk (recursion = uninterpreted call to
          itself): exact child first; when there is none, the node's `*` wildcard answers
          whenever it applies (last label, wildcard present, wildcards accepted) and no regex
          sibling is even consulted; regex siblings are tried only otherwise.  This is the
          property's "exact host over wildcard over regex host", per node.
prepost   Router::{add,remove}_{pre,post}_rule: the lists are evaluated first-match-wins, so
          the relative order of the remaining rules is part of the configuration: every
          mutation of `self.pre` / `self.post` goes through an order-preserving Vec operation
          (push at the end on add, Vec::remove on removal — never swap_remove / sort /
          reverse), removal only at the position the lookup returned."""
import re

from .. import engine
from ... import mirrun
from .c16 import Q

ROUTER = "/lib/src/router/mod.rs"


def trie(ob, tier):
    fn = mirrun.get_fn("lib", "::lookup_with_path", sig="TrieNode<V>")
    ex = engine.Executor(fn, loop_bound=lambda f, h: 2)
    ev = ex.run()
    for i, e in enumerate(ev):
        e.seq = i
    q = Q(ex.ctx)
    res = {"paths": ex.stats["nodes"], "functions": [fn.name]}
    src = open(mirrun.REPO + "/lib/src/router/pattern_trie.rs").read()
    m = re.search(r"pub struct TrieNode<V> \{(.*?)\n\}", src, re.S)
    fields = re.findall(r"^\s*(?:pub(?:\([\w:]+\))? )?(\w+):", re.sub(r"//.*", "", m.group(1)), re.M)
    wplace, rplace = "(*_1).%d" % fields.index("wildcard"), "(*_1).%d" % fields.index("regexps")
    prefix = fn.debug.get("prefix")
    accept = ex.initial.get(fn.debug.get("accept_wildcard", "_3"))
    get = [e for e in ev if e.kind == "call" and re.search(r"HashMap::<Vec<u8>, TrieNode<V>>::get(::<.*>)?$", e.callee)]
    rec = [e for e in ev if e.kind == "call" and e.callee.endswith("::lookup_with_path")]
    # "regex siblings consulted" = anything handed (a borrow of) self.regexps, or a direct is_match
    consult = [e for e in ev if e.kind == "call" and (e.callee.endswith("Regex::is_match") or any(a["val"].ref == rplace for a in e.args))]
    match = [e for e in ev if e.kind == "call" and e.callee.endswith("Regex::is_match")]
    pempty = [e for e in ev if e.kind == "call" and e.callee.endswith("<impl [u8]>::is_empty") and e.args[0]["text"].split()[-1] == prefix]
    wd = ex.initial.get("discr(%s)" % wplace)
    rets = [e for e in ev if e.kind == "return"]
    if len(get) != 1 or len(rec) < 2 or not consult or len(rets) != 1:
        return dict(res, verdict="inconclusive", why="shape: child lookups=%d recursions=%d regex consultations=%d" % (len(get), len(rec), len(consult)))
    problems = []
    if accept is None:
        problems.append("accept_wildcard is never consulted")
        accept = engine.Val(ex.ctx.sym("unread.accept_wildcard", "Bool"), "Bool")
    if wd is None:
        problems.append("the node's wildcard is never consulted")
        wd = engine.Val(ex.ctx.sym("unread.wildcard", 64), 64)
    if len(pempty) != 1:
        problems.append("the wildcard arm does not test that the prefix is exhausted (a wildcard only stands for the leftmost labels)")
        pe = ex.ctx.sym("unread.prefix_is_empty", "Bool")
    else:
        pe = engine.AND(pempty[0].guard, pempty[0].result.term)
    gd = get[0].result_discr or ex.initial.get("discr(%s)" % get[0].dest)
    child = "(= %s %s)" % (gd.term, engine.bv(1, 64))
    applies = engine.AND(pe, "(= %s %s)" % (wd.term, engine.bv(1, 64)), accept.term)
    for c in consult:
        if q([c.guard, child])[0] != "unsat":
            problems.append("a regex sibling is consulted although an exact child exists")
        if q([c.guard, applies])[0] != "unsat":
            problems.append("a regex sibling is consulted although the node's wildcard applies (regex host shadows the wildcard host)")
    # recursive calls are classified by what their guard implies, not by block order (an
    # early-return rewrite of the same logic orders the blocks differently)
    exact = [r for r in rec if q([r.guard, engine.NOT(child)])[0] == "unsat"]
    regex = [r for r in rec if r not in exact]
    if not exact or q([get[0].guard, child, engine.NOT(engine.OR(*[r.guard for r in exact]))])[0] != "unsat":
        problems.append("an exact child does not take the lookup")
    for r in regex:
        if q([r.guard, child])[0] != "unsat":
            problems.append("the walk continues into a regex subtree although an exact child exists")
        if q([r.guard, applies])[0] != "unsat":
            problems.append("the walk continues into a regex subtree although the wildcard applies")
        if match and q([r.guard, engine.NOT(engine.OR(*[engine.AND(m.guard, m.result.term) for m in match]))])[0] != "unsat":
            problems.append("the walk continues into a regex subtree whose pattern did not match")

    def it(e):
        return e.node[1][-1][1] if e.node[1] else 0
    for a in match:
        for b in match:
            if it(a) < it(b) and q([b.guard, a.guard, a.result.term])[0] != "unsat":
                problems.append("a later regex sibling is consulted after an earlier one matched")
    wit = [q([consult[0].guard])[0], q([rets[0].guard, applies, engine.NOT(child)])[0], q([get[0].guard, child])[0]]
    res["witness"] = "regex arm / wildcard arm / exact arm reachable: %s; %d regex consultation sites" % (wit, len(consult))
    res["witness_ok"] = all(w == "sat" for w in wit)
    res["queries"], res["solver_s"] = q.n, round(q.secs, 2)
    if problems:
        return dict(res, verdict="counterexample", text="; ".join(sorted(set(problems))), model={"problems": problems}, replay={"reproduced": False, "why": "no native replay"})
    return dict(res, verdict="holds")


ORDER_PRESERVING = r"Vec::<.*>::(push|remove|retain|retain_mut|truncate|clear|insert|drain|pop|extend_from_slice|reserve|shrink_to_fit)(::<.*>)?$"


def prepost(ob, tier):
    src = open(mirrun.REPO + ROUTER).read()
    m = re.search(r"pub struct Router \{(.*?)\n\}", src, re.S)
    names = re.findall(r"^\s*(?:pub(?:\([\w:]+\))? )?(\w+):", re.sub(r"//.*", "", m.group(1)), re.M)
    problems, fnames, nodes, tq, ts, wit = [], [], 0, 0, 0.0, []
    for which in ("pre", "post"):
        place = "(*_1).%d" % names.index(which)
        for op in ("add", "remove"):
            fn = mirrun.get_fn("lib", "::%s_%s_rule" % (op, which), sig="&mut router::Router")
            ex = engine.Executor(fn, loop_bound=lambda f, h: 2)
            ev = ex.run()
            for i, e in enumerate(ev):
                e.seq = i
            q = Q(ex.ctx)
            fnames.append(fn.name)
            nodes += ex.stats["nodes"]
            who = "%s_%s_rule" % (op, which)
            # calls handed a mutable borrow of the list
            mut = [e for e in ev if e.kind == "call" and any(a["val"].ref == place and a["val"].mut for a in e.args)]
            if not mut:
                problems.append("%s: no mutation of self.%s found" % (who, which))
                continue
            for c in mut:
                if not re.search(ORDER_PRESERVING, c.callee) and q([c.guard])[0] != "unsat":
                    problems.append("%s mutates self.%s through %s, which does not keep the order of the other rules" % (who, which, re.sub(r"::<.*?>(?=::|$)", "", c.callee).split("::")[-1]))
            want = "push" if op == "add" else "remove"
            site = [c for c in mut if re.search(r"Vec::<.*>::%s$" % want, c.callee)]
            if len(site) != 1:
                problems.append("%s: expected exactly one Vec::%s on self.%s, found %d" % (who, want, which, len(site)))
                continue
            if op == "remove":
                pos = [e for e in ev if e.kind == "call" and re.search(r"Iterator>::position::<", e.callee)]
                idx = site[0].args[1]["val"].term
                if len(pos) != 1 or ex.initial.get("(%s as Some).0" % pos[0].dest) is None or ex.initial["(%s as Some).0" % pos[0].dest].term != idx:
                    problems.append("%s removes at an index other than the one the lookup returned" % who)
                else:
                    pd = pos[0].result_discr or ex.initial.get("discr(%s)" % pos[0].dest)
                    if q([site[0].guard, engine.NOT("(= %s %s)" % (pd.term, engine.bv(1, 64)))])[0] != "unsat":
                        problems.append("%s removes although the triple was not found" % who)
            wit.append(q([site[0].guard])[0])
            tq += q.n
            ts += q.secs
    res = {"paths": nodes, "functions": fnames, "witness": "the four mutation sites are reachable: %s" % wit,
           "witness_ok": len(wit) == 4 and all(w == "sat" for w in wit), "queries": tq, "solver_s": round(ts, 2)}
    if problems:
        return dict(res, verdict="counterexample", text="; ".join(sorted(set(problems))), model={"problems": problems}, replay={"reproduced": False, "why": "no native replay"})
    return dict(res, verdict="holds")


def run(ob, tier):
    return {"trie": trie, "prepost": prepost}[ob["which"]](ob, tier)
