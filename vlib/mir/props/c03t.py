"""C03 / C01 — a trailer section received over HTTP/2 and what the HTTP/1.1 serialiser will
make of it (engine M, handle_trailer and its per-field callback).

kawa's H1 converter writes every `Block::Header` it meets as `name: value\\r\\n` and writes
the last-chunk line `0\\r\\n` only for a `Flags` block with `end_body` on a chunked message.
handle_trailer therefore decides the wire bytes by what it leaves in `kawa.blocks`:
  A. on a Content-Length framed message no trailer field may stay queued (HTTP/1.1 cannot
     carry trailers after a fixed-length body: whatever follows the body is read by the peer
     as the start of the next message);
  B. on a chunked message the trailer section has to be preceded by the last chunk, i.e. a
     `Flags { end_body: true }` has to be queued.
Both are decided over the real MIR: A = is the queuing of a trailer field (or a later
removal of the queued blocks) conditioned on `kawa.body_size`; B = can `end_body` of any
Flags block built here be true."""
import re

from .. import engine
from ... import mirrun
from .c16 import Q
from .c01 import kawa_fields


def trailers_h1(ob, tier):
    body_i = kawa_fields("repr", "Kawa").index("body_size")
    blocks_i = kawa_fields("repr", "Kawa").index("blocks")
    main = mirrun.get_fn("lib", "handle_trailer", sig="_1: &mut Kawa<pool::Checkout>, _2: &[u8], _3: bool")
    clo = mirrun.get_fn("lib", "handle_trailer::{closure#0}")
    res = {"paths": 0, "functions": [main.name, clo.name]}
    problems, wit = [], []
    tq, ts = 0, 0.0
    # ---- A: queuing conditioned on the framing?
    ex = engine.Executor(clo, loop_bound=lambda f, h: 1, max_nodes=200000)
    ev = ex.run()
    q = Q(ex.ctx)
    res["paths"] += ex.stats["nodes"]
    push = [e for e in ev if e.kind == "call" and e.callee.endswith("::push_block")]
    reads_c = [k for k in ex.initial if re.search(r"discr\(.*\.%d\)$" % body_i, k)]
    ex2 = engine.Executor(main, loop_bound=lambda f, h: 1, max_nodes=200000)
    ev2 = ex2.run()
    q2 = Q(ex2.ctx)
    res["paths"] += ex2.stats["nodes"]
    bs = [v for k, v in ex2.initial.items() if re.match(r"^discr\(\(\*_1\)\.%d\)$" % body_i, k)]
    unqueue = [e for e in ev2 if e.kind == "call" and not e.callee.endswith("::push_block")
               and any((a["val"].ref or "").startswith("(*_1).%d" % blocks_i) and a["val"].mut for a in e.args)]
    if not push:
        return dict(res, verdict="inconclusive", why="no push_block in the trailer callback")
    if not reads_c and not unqueue:
        problems.append("trailer fields are queued for the serialiser whatever the framing and never removed: on a Content-Length framed message "
                        "the HTTP/1.1 serialiser writes `name: value` lines after the fixed-length body (read by the peer as the next message)")
    wit.append(q([engine.OR(*[p.guard for p in push])])[0])
    # ---- B: can a last chunk be signalled?
    flags_stmts = [st for f in (main, clo) for b in f.blocks.values() for st in b["stmts"] if re.search(r"= (?:kawa::)?Flags \{", st)]
    can_end_body = [st for st in flags_stmts if not re.search(r"end_body: const false", st)]
    fl_push = [e for e in ev2 if e.kind == "call" and e.callee.endswith("::push_block")]
    if not flags_stmts or not fl_push:
        return dict(res, verdict="inconclusive", why="no Flags block built in handle_trailer")
    if not can_end_body:
        problems.append("every Flags block queued by handle_trailer has end_body = false: on a chunked message the trailer section is written "
                        "without the `0\\r\\n` last-chunk line before it")
    wit.append(q2([engine.OR(*[p.guard for p in fl_push])])[0])
    tq, ts = q.n + q2.n, q.secs + q2.secs
    res["witness"] = "field queuing / terminating Flags reachable: %s; body_size consulted in the callback: %s, in handle_trailer: %s" % (wit, bool(reads_c), bool(bs))
    res["witness_ok"] = all(w == "sat" for w in wit)
    res["queries"], res["solver_s"] = tq, round(ts, 2)
    if problems:
        import os
        rp = mirrun.native_test("c03_trailers", "", timeout=1800)
        return dict(res, verdict="counterexample", text="; ".join(problems), model={"problems": problems, "flags_built": flags_stmts[:4]},
                    replay={"reproduced": rp["ran"] and rp["failed"], "path": os.path.join(mirrun.VERIF, "replay/tests/c03_trailers.rs"), "log": rp["log"]})
    return dict(res, verdict="holds")


def run(ob, tier):
    return {"trailers_h1": trailers_h1}[ob["which"]](ob, tier)
