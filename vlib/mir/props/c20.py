"""C20 — the generated message ids never wrap: Config::generate_config_messages from MIR.

Every loop over a listener list is an `Iterator::next` call with an uninterpreted result, so
the number of listeners is symbolic; the TCP-listener loops are unrolled N times (the other
loops once), and the `count += 1` overflow checks rustc emits (`-C overflow-checks=on`) are
the obligations."""
import os
import re

from .. import engine, solve
from ... import mirrun


def run(ob, tier):
    fn = mirrun.get_fn("command", "::generate_config_messages")
    n = ob["unroll_thorough"] if tier == "thorough" else ob["unroll"]

    # the loop header of `for listener in &self.tcp_listeners` calls
    # <slice::Iter<TcpListenerConfig> as Iterator>::next ; the first such loop (the
    # AddTcpListener one) is unrolled n times, every other loop 0 times: the claim is about
    # configurations with up to n TCP listeners and nothing else (stated bound)
    kind = ob.get("loop_type", "TcpListenerConfig")
    tcp = [h for h in sorted(fn.blocks, key=lambda b: int(b[2:]))
           if ("Iter<'_, %s>" % kind) in (fn.blocks[h]["term"] or "").replace("proto::command::", "") and "::next" in (fn.blocks[h]["term"] or "")]
    which = ob.get("loop_ordinal", 0)
    if len(tcp) <= which:
        return {"verdict": "inconclusive", "why": "%s loop #%d not found in the MIR (%d found)" % (kind, which, len(tcp))}

    def bound(f, header):
        return n if header == tcp[which] else 0

    ex = engine.Executor(fn, loop_bound=bound, max_nodes=200000)
    ev = ex.run()
    asserts = [e for e in ev if e.kind == "assert"]
    unw = [e for e in ev if e.kind == "unwind"]
    rets = [e for e in ev if e.kind == "return"]
    res = {"paths": ex.stats["nodes"], "functions": [fn.name]}
    counter = fn.debug.get("count")
    cty = fn.locals.get(counter)
    res["witness"] = "counter local %s: %s; %d overflow checks; %d unrolled nodes; loops unrolled %dx" % (
        counter, cty, len(asserts), ex.stats["nodes"], n)
    if not asserts or not rets:
        return dict(res, verdict="inconclusive", why="no overflow checks / return found in the MIR (built without overflow-checks?)")
    queries, secs = 0, 0.0
    # witness: the function can return having pushed >= n messages (the deepest unrolled
    # iteration is reachable)
    deep = max(ex.node_guard, key=lambda k: sum(i for _, i in k[1]))
    v, _, s, d = solve.check(ex.ctx.script([ex.node_guard[deep]]))
    queries += 1
    secs += s
    res["witness_ok"] = (v == "sat" and sum(i for _, i in deep[1]) >= n)
    v, model, s, d = solve.check(ex.ctx.script([engine.OR(*[a.guard for a in asserts])], get=[a.guard for a in asserts]))
    queries += 1
    secs += s
    if v == "inconclusive":
        return dict(res, verdict="inconclusive", why=d, queries=queries, solver_s=secs)
    if v == "sat":
        hit = [a for a in asserts if model.get(a.guard) is True]
        it = min(sum(i for _, i in a.node[1]) for a in hit) if hit else None
        text = "message id counter (%s) overflows after %s generated messages" % (cty, (it + 1) if it is not None else "?")
        rp = mirrun.native_test("c20_ids", "")
        return dict(res, verdict="counterexample", text=text, model={"first_overflow_iteration": it},
                    queries=queries, solver_s=secs,
                    replay={"reproduced": rp["ran"] and rp["failed"], "path": os.path.join(mirrun.VERIF, "replay/tests/c20_ids.rs"), "log": rp["log"]})
    return dict(res, verdict="holds", queries=queries, solver_s=round(secs, 2))
