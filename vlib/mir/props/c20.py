"""C20 — the generated message ids never wrap: Config::generate_config_messages from MIR.

Every loop over a listener list is an `Iterator::next` call with an uninterpreted result, so
the number of listeners is symbolic; the TCP-listener loops are unrolled N times (the other
loops once), and the `count += 1` overflow checks rustc emits (`-C overflow-checks=on`) are
the obligations."""
import os
import re

from .. import engine, solve
from ... import mirrun


class Q:
    def __init__(self, ctx):
        self.ctx, self.n, self.secs = ctx, 0, 0.0

    def __call__(self, asserts):
        v, model, s, detail = solve.check(self.ctx.script(asserts))
        self.n += 1
        self.secs += s
        return v


def fn_source(path, name):
    src = open(mirrun.REPO + path).read()
    i = src.index("fn %s(" % name)
    j = src.index("\n    }\n", i)
    return src[i:j]


def emitted(ob, tier):
    """generate_config_messages: every item a loop yields becomes exactly one pushed
    WorkerRequest (nothing silently dropped, nothing duplicated) and the id counter advances
    with it.  First iteration of every loop, iterators uninterpreted (arbitrary yields)."""
    fn = mirrun.get_fn("command", "::generate_config_messages")
    ex = engine.Executor(fn, loop_bound=lambda f, h: 1, max_nodes=200000)
    ev = ex.run()
    for i, e in enumerate(ev):
        e.seq = i
    q = Q(ex.ctx)
    res = {"paths": ex.stats["nodes"], "functions": [fn.name]}
    want_sites = len(re.findall(r"v\.push\(WorkerRequest", fn_source("/command/src/config.rs", "generate_config_messages")))
    problems, wit = [], []
    groups = {}
    for e in ev:
        if e.kind == "call" and e.node[1] and all(i == 0 for _, i in e.node[1]):
            groups.setdefault(e.node[1][-1][0], []).append(e)
    sites = 0
    for header, g in sorted(groups.items(), key=lambda kv: int(kv[0][2:])):
        pushes = [e for e in g if re.search(r"Vec::<WorkerRequest>::push$", e.callee)]
        nxt = [e for e in g if e.node[0] == header and re.search(r"Iterator>::next$", e.callee)]
        if not pushes:
            continue
        sites += len(pushes)
        if len(nxt) != 1:
            problems.append("loop %s: iterator call not found" % header)
            continue
        d = nxt[0].result_discr or ex.initial.get("discr(%s)" % nxt[0].dest)
        some = engine.AND(nxt[0].guard, "(= %s %s)" % (d.term, engine.bv(1, 64)))
        if q([some, engine.NOT(engine.OR(*[p.guard for p in pushes]))]) != "unsat":
            problems.append("an item yielded by the loop at %s can be dropped without being pushed" % header)
        for i in range(len(pushes)):
            for j in range(i + 1, len(pushes)):
                if q([pushes[i].guard, pushes[j].guard]) != "unsat":
                    problems.append("an item yielded by the loop at %s can be pushed twice" % header)
        # the counter advances once per push: an overflow check (the `count += 1`) follows each push
        adds = [e for e in ev if e.kind == "assert" and e.node[1] == pushes[0].node[1] and "+" in e.msg]
        if len(adds) != len(pushes):
            problems.append("loop at %s: %d pushes but %d counter increments" % (header, len(pushes), len(adds)))
        wit.append(q([some]))
    outside = len([e for e in ev if e.kind == "call" and not e.node[1] and re.search(r"Vec::<WorkerRequest>::push$", e.callee)])
    if sites + outside != want_sites:
        problems.append("%d push sites in the MIR (%d in loops), %d `v.push(WorkerRequest` in the source" % (sites + outside, sites, want_sites))
    res["witness"] = "%d emitting loops, each can yield: %s" % (len(wit), wit)
    res["witness_ok"] = bool(wit) and all(w == "sat" for w in wit)
    res["queries"], res["solver_s"] = q.n, round(q.secs, 2)
    if problems:
        return dict(res, verdict="counterexample", text="; ".join(problems), model={"problems": problems}, replay={"reproduced": False, "why": "no native replay"})
    return dict(res, verdict="holds")


PUSHERS = {"push_tls_listener": "Https", "push_http_listener": "Http", "push_tcp_listener": "Tcp"}


def listeners(ob, tier):
    """populate_clusters: a default listener is created only for an address known_addresses
    does not hold yet, and creating one records that address with the protocol of the
    listener created -- so a second frontend on the same address finds it (no duplicate
    listener, no protocol confusion).  First iteration of each frontend loop."""
    variants = engine.register_enum(mirrun.REPO + "/command/src/config.rs", "ListenerProtocol")
    fn = mirrun.get_fn("command", "::populate_clusters", sig="&mut ConfigBuilder")
    ex = engine.Executor(fn, loop_bound=lambda f, h: 1, max_nodes=200000)
    ev = ex.run()
    for i, e in enumerate(ev):
        e.seq = i
    q = Q(ex.ctx)
    res = {"paths": ex.stats["nodes"], "functions": [fn.name]}
    problems, wit = [], []
    groups = {}
    for e in ev:
        if e.kind == "call" and e.node[1] and all(i == 0 for _, i in e.node[1]):
            groups.setdefault(e.node[1], []).append(e)
    seen = set()
    for ctx, g in groups.items():
        push = [e for e in g if re.search(r"::push_(tls|http|tcp|udp)_listener$", e.callee)]
        if not push:
            continue
        gets = [e for e in g if re.search(r"HashMap::<std::net::SocketAddr, ListenerProtocol>::get(::<.*>)?$", e.callee)]
        ins = [e for e in g if re.search(r"HashMap::<std::net::SocketAddr, ListenerProtocol>::insert$", e.callee)]
        if len(gets) != 1:
            problems.append("loop %s: known_addresses lookup not found" % (ctx[-1][0],))
            continue
        gd = gets[0].result_discr or ex.initial.get("discr(%s)" % gets[0].dest)
        for p in push:
            kind = p.callee.split("::")[-1]
            seen.add(kind)
            if q([p.guard, engine.NOT("(= %s %s)" % (gd.term, engine.bv(0, 64)))]) != "unsat":
                problems.append("%s can run for an address that is already known (duplicate listener)" % kind)
            pd = p.result_discr or ex.initial.get("discr(%s)" % p.dest)
            ok = engine.AND(p.guard, "(= %s %s)" % (pd.term, engine.bv(0, 64)))
            after = [i for i in ins if i.seq > p.seq]
            if q([ok, engine.NOT(engine.OR(*[i.guard for i in after]))]) != "unsat":
                problems.append("a listener created by %s is not recorded in known_addresses (a second frontend on that address creates it again)" % kind)
                continue
            want = engine.ENUM_VARIANTS[("ListenerProtocol", PUSHERS.get(kind, "Udp"))]
            for i in after:
                dd = i.args[2]["discr"] if len(i.args) > 2 else None
                if dd is None:
                    problems.append("%s: the recorded protocol is not a known constant" % kind)
                elif q([ok, i.guard, engine.NOT("(= %s %s)" % (dd.term, engine.bv(want, 64)))]) != "unsat":
                    problems.append("a listener created by %s is recorded under another protocol than %s" % (kind, variants[want]))
            wit.append(q([ok]))
    for k in PUSHERS:
        if k not in seen:
            problems.append("no default-listener site calls %s" % k)
    res["witness"] = "default-listener sites reachable: %s" % wit
    res["witness_ok"] = len(wit) >= 3 and all(w == "sat" for w in wit)
    res["queries"], res["solver_s"] = q.n, round(q.secs, 2)
    if problems:
        return dict(res, verdict="counterexample", text="; ".join(sorted(set(problems))), model={"problems": problems}, replay={"reproduced": False, "why": "no native replay"})
    return dict(res, verdict="holds")


def proxy_agreement(ob, tier):
    """FileClusterConfig::to_cluster_config, TCP branch: a cluster whose frontends sit on
    listeners that disagree on `expect_proxy` is rejected at load time whichever order the
    frontends are written in.  Two passes of the frontend loop, `contains` uninterpreted
    (arbitrary answers e0, e1): reaching the second frontend's conversion implies e0 == e1."""
    fn = mirrun.get_fn("command", "::to_cluster_config", sig="_1: FileClusterConfig")
    ex = engine.Executor(fn, loop_bound=lambda f, h: 1, max_nodes=200000)
    ev = ex.run()
    for i, e in enumerate(ev):
        e.seq = i
    q = Q(ex.ctx)
    res = {"paths": ex.stats["nodes"], "functions": [fn.name]}
    cont = [e for e in ev if e.kind == "call" and re.search(r"HashSet::<std::net::SocketAddr>::contains", e.callee) and e.result is not None]
    conv = [e for e in ev if e.kind == "call" and e.callee.endswith("::to_tcp_front")]
    if len(cont) != 2 or len(conv) != 2 or cont[0].node[1] == cont[1].node[1]:
        return dict(res, verdict="inconclusive", why="shape: expect_proxy lookups=%d tcp conversions=%d in two unrolled passes" % (len(cont), len(conv)))
    e0, e1 = cont[0].result.term, cont[1].result.term
    second = [c for c in conv if c.node[1] == cont[1].node[1]][0]
    problems = []
    if q([second.guard, e0, engine.NOT(e1)]) != "unsat":
        problems.append("a TCP cluster whose first frontend is on an expect_proxy listener and a later one on a plain listener is accepted")
    if q([second.guard, engine.NOT(e0), e1]) != "unsat":
        problems.append("a TCP cluster whose first frontend is on a plain listener and a later one on an expect_proxy listener is accepted (the mixing check depends on the order of the frontends)")
    wit = [q([second.guard, e0, e1]), q([second.guard, engine.NOT(e0), engine.NOT(e1)])]
    res["witness"] = "homogeneous clusters reach the second frontend: %s" % wit
    res["witness_ok"] = all(w == "sat" for w in wit)
    res["queries"], res["solver_s"] = q.n, round(q.secs, 2)
    if problems:
        return dict(res, verdict="counterexample", text="; ".join(problems), model={"problems": problems}, replay={"reproduced": False, "why": "no native replay"})
    return dict(res, verdict="holds")


def verbatim(ob, tier):
    """HttpClusterConfig / TcpClusterConfig::generate_requests: the AddCluster message carries
    each scalar per-cluster knob exactly as declared: for every `Option<integer|bool>` field
    that exists under the same name and type on both sides, the solvers decide that the
    discriminant and the payload of the message field equal those of the field of self
    (absent, Some(0) and Some(n) are three different declarations: inherit / explicitly
    unlimited / limit)."""
    problems, fnames, nodes, wit = [], [], 0, []
    tq, ts = 0, 0.0
    proto = open(mirrun.REPO + "/command/src/proto/command.rs").read()
    m = re.search(r"pub struct Cluster \{(.*?)\n\}", proto, re.S)
    pdecl = re.findall(r"^\s*pub (\w+):\s*([^\n]*?),?\s*$", m.group(1), re.M)
    pnames = [n for n, _ in pdecl]
    scalar = r"^(?:::core::option::)?Option<(u64|u32|i32|i64|bool|usize)>$"
    for struct in ("HttpClusterConfig", "TcpClusterConfig"):
        src = open(mirrun.REPO + "/command/src/config.rs").read()
        ms = re.search(r"pub struct %s \{(.*?)\n\}" % struct, src, re.S)
        sdecl = re.findall(r"^\s*(?:pub(?:\([\w:]+\))? )?(\w+):\s*([^\n]*?),?\s*$", re.sub(r"//.*", "", ms.group(1)), re.M)
        snames = [n for n, _ in sdecl]
        fn = mirrun.get_fn("command", "::generate_requests", sig="&%s" % struct)
        ex = engine.Executor(fn, loop_bound=lambda f, h: 1, max_nodes=200000)
        ev = ex.run()
        q = Q(ex.ctx)
        fnames.append(fn.name)
        nodes += ex.stats["nodes"]
        agg = [(bb, st) for bb, b in fn.blocks.items() for st in b["stmts"] if re.search(r"^_\d+ = (?:[\w:]*::)?Cluster \{ ", st)]
        if len(agg) != 1:
            problems.append("%s: shape (Cluster literals=%d)" % (struct, len(agg)))
            continue
        loc = agg[0][1].split(" = ", 1)[0]
        after = [e for e in ev if e.kind == "call" and ("%s.0" % loc) in e.env]
        if not after:
            problems.append("%s: shape (no event after the Cluster literal)" % struct)
            continue
        e0 = after[0]
        checked = 0
        for pi, (name, pty) in enumerate(pdecl):
            mm = re.match(scalar, pty.strip())
            if not mm or name not in snames:
                continue
            sty = sdecl[snames.index(name)][1].strip()
            if re.sub(r"\s", "", sty) != "Option<%s>" % mm.group(1):
                continue
            si = snames.index(name)
            env0 = dict(e0.env)
            dd = ex.read_discr(env0, "%s.%d" % (loc, pi))
            sd = ex.read_discr({}, "(*_1).%d" % si)
            dp = ex.read(env0, "(%s.%d as Some).0" % (loc, pi), mm.group(1))
            sp = ex.read({}, "((*_1).%d as Some).0" % si, mm.group(1))
            if dd is None or sd is None:
                # the field is not a plain copy of the declared one: its presence is decided elsewhere
                dd = dd or engine.Val(ex.ctx.sym("rewritten.%s" % name, 64), 64)
                sd = sd or engine.Val(ex.ctx.sym("declared.%s" % name, 64), 64)
            v1 = q([e0.guard, engine.NOT("(= %s %s)" % (dd.term, sd.term))])
            v2 = "unsat"
            if dp is not None and sp is not None and dp.sort == sp.sort:
                v2 = q([e0.guard, "(= %s %s)" % (sd.term, engine.bv(1, 64)), engine.NOT("(= %s %s)" % (dp.term, sp.term))])
            if v1 != "unsat" or v2 != "unsat":
                problems.append("%s::generate_requests does not carry `%s` into AddCluster as declared (absent / Some(0) / Some(n) can be rewritten)" % (struct, name))
            checked += 1
        wit.append(checked)
        tq += q.n
        ts += q.secs
    res = {"paths": nodes, "functions": fnames, "witness": "scalar optional knobs compared per builder: %s" % wit,
           "witness_ok": bool(wit) and all(w >= 2 for w in wit), "queries": tq, "solver_s": round(ts, 2)}
    if problems:
        return dict(res, verdict="counterexample", text="; ".join(problems), model={"problems": problems}, replay={"reproduced": False, "why": "no native replay"})
    return dict(res, verdict="holds")


def _clone_of(fn, call_text, field_idx):
    """`_k = <T as Clone>::clone(move _j)` with `_j = &((*_1).field_idx: T)`"""
    m = re.search(r"clone\((?:move|copy) (_\d+)\)", call_text)
    if not m:
        return False
    stmts = [st for b in fn.blocks.values() for st in b["stmts"]]
    return any(re.match(r"^%s = &\(\(\*_1\)\.%d: " % (re.escape(m.group(1)), field_idx), st) for st in stmts)


def run(ob, tier):
    if ob.get("which") == "proxy_agreement":
        return proxy_agreement(ob, tier)
    if ob.get("which") == "verbatim":
        return verbatim(ob, tier)
    if ob.get("which") == "emitted":
        return emitted(ob, tier)
    if ob.get("which") == "listeners":
        return listeners(ob, tier)
    fn = mirrun.get_fn("command", "::generate_config_messages")
    n = ob["unroll_thorough"] if tier == "thorough" else ob["unroll"]

    # the loop header of `for listener in &self.tcp_listeners` calls
    # <slice::Iter<TcpListenerConfig> as Iterator>::next ; the first such loop (the
    # AddTcpListener one) is unrolled n times, every other loop 0 times: the claim is about
    # configurations with up to n TCP listeners and nothing else (stated bound)
    kind = ob.get("loop_type", "TcpListenerConfig")
    tcp = [h for h in sorted(fn.blocks, key=lambda b: int(b[2:]))
           if ("Iter<'_, %s>" % kind) in (fn.blocks[h]["term"] or "").replace("proto::command::", "") and "::next" in (fn.blocks[h]["term"] or "")]
    which = ob.get("loop_ordinal", 0)
    if len(tcp) <= which:
        return {"verdict": "inconclusive", "why": "%s loop #%d not found in the MIR (%d found)" % (kind, which, len(tcp))}

    def bound(f, header):
        return n if header == tcp[which] else 0

    ex = engine.Executor(fn, loop_bound=bound, max_nodes=200000)
    ev = ex.run()
    asserts = [e for e in ev if e.kind == "assert"]
    unw = [e for e in ev if e.kind == "unwind"]
    rets = [e for e in ev if e.kind == "return"]
    res = {"paths": ex.stats["nodes"], "functions": [fn.name]}
    counter = fn.debug.get("count")
    cty = fn.locals.get(counter)
    res["witness"] = "counter local %s: %s; %d overflow checks; %d unrolled nodes; loops unrolled %dx" % (
        counter, cty, len(asserts), ex.stats["nodes"], n)
    if not asserts or not rets:
        return dict(res, verdict="inconclusive", why="no overflow checks / return found in the MIR (built without overflow-checks?)")
    queries, secs = 0, 0.0
    # witness: the function can return having pushed >= n messages (the deepest unrolled
    # iteration is reachable)
    deep = max(ex.node_guard, key=lambda k: sum(i for _, i in k[1]))
    v, _, s, d = solve.check(ex.ctx.script([ex.node_guard[deep]]))
    queries += 1
    secs += s
    res["witness_ok"] = (v == "sat" and sum(i for _, i in deep[1]) >= n)
    v, model, s, d = solve.check(ex.ctx.script([engine.OR(*[a.guard for a in asserts])], get=[a.guard for a in asserts]))
    queries += 1
    secs += s
    if v == "inconclusive":
        return dict(res, verdict="inconclusive", why=d, queries=queries, solver_s=secs)
    if v == "sat":
        hit = [a for a in asserts if model.get(a.guard) is True]
        it = min(sum(i for _, i in a.node[1]) for a in hit) if hit else None
        text = "message id counter (%s) overflows after %s generated messages" % (cty, (it + 1) if it is not None else "?")
        rp = mirrun.native_test("c20_ids", "")
        return dict(res, verdict="counterexample", text=text, model={"first_overflow_iteration": it},
                    queries=queries, solver_s=secs,
                    replay={"reproduced": rp["ran"] and rp["failed"], "path": os.path.join(mirrun.VERIF, "replay/tests/c20_ids.rs"), "log": rp["log"]})
    return dict(res, verdict="holds", queries=queries, solver_s=round(secs, 2))
