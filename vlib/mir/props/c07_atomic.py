"""C07 — a rejected listener patch leaves no trace; an accepted one changes exactly what it names.

Symbolic execution of ConfigState::update_{http,https,tcp,udp}_listener (private) from MIR.
The patch is fully symbolic (every Option discriminant and payload free); BTreeMap::get_mut,
the validators and merge_custom_http_answers are uninterpreted calls with arbitrary results;
every store through the listener reference is a write event (a `&mut listener.field` handed
to an uninterpreted call counts as a write too)."""
import os
import re

from .. import engine, solve
from ... import mirrun


def struct_fields(struct):
    """field names of a prost-generated struct, in declaration order (= MIR field index)"""
    src = open(os.path.join(mirrun.REPO, "command/src/proto/command.rs")).read()
    m = re.search(r"pub struct %s \{(.*?)\n\}" % re.escape(struct), src, re.S)
    if not m:
        raise KeyError(struct)
    return re.findall(r"^\s*pub (\w+):", m.group(1), re.M)


def optional_fields(struct):
    src = open(os.path.join(mirrun.REPO, "command/src/proto/command.rs")).read()
    m = re.search(r"pub struct %s \{(.*?)\n\}" % re.escape(struct), src, re.S)
    return {n for n, t in re.findall(r"^\s*pub (\w+):\s*([^\n]*)", m.group(1), re.M) if "Option<" in t}


PAYLOAD_RE = r"^\|in\.__\*%s_\.(\d+)_as_Some_\.0(?:!\d+)?\|$"


def run(ob, tier):
    fn = mirrun.get_fn(ob.get("crate", "command"), ob["fn_suffix"], sig=ob.get("sig"))
    ex = engine.Executor(fn, loop_bound=lambda f, h: 2, max_nodes=200000)
    events = ex.run()
    listener = fn.debug.get("listener")
    patch = fn.debug.get("patch")
    if ob.get("self_field"):
        # worker-side listener objects: the patched config is a field of self
        src = open(os.path.join(mirrun.REPO, ob["self_struct_path"])).read()
        m = re.search(r"pub struct %s \{(.*?)\n\}" % re.escape(ob["self_struct"]), src, re.S)
        names = re.findall(r"^\s*(?:pub(?:\([\w:]+\))? )?(\w+):", m.group(1), re.M)
        lref = "(*_1).%d" % names.index(ob["self_field"])
    elif listener:
        lref = "(*%s)" % listener
    else:
        return {"verdict": "inconclusive", "why": "no `listener` binding in the MIR debug info"}
    if not patch:
        return {"verdict": "inconclusive", "why": "no `patch` binding in the MIR debug info"}
    pref = "(*%s)" % patch
    writes = [e for e in events if e.kind in ("write", "havoc") and e.place.startswith(lref)]
    rets = [e for e in events if e.kind == "return"]
    unwinds = [e for e in events if e.kind == "unwind"]
    if len(rets) != 1:
        return {"verdict": "inconclusive", "why": "%d return events" % len(rets)}
    ret = rets[0]
    d0 = ret.env.get("discr(_0)")
    if d0 is None:
        return {"verdict": "inconclusive", "why": "return discriminant unknown"}
    is_err = "(= %s %s)" % (d0.term, engine.bv(1, 64))
    is_ok = "(= %s %s)" % (d0.term, engine.bv(0, 64))
    any_write = engine.OR(*[w.guard for w in writes])
    queries, secs = 0, 0.0
    res = {"paths": ex.stats["nodes"], "functions": [fn.name]}

    def q(asserts, get=()):
        nonlocal queries, secs
        v, model, s, detail = solve.check(ex.ctx.script(asserts, get))
        queries += 1
        secs += s
        return v, model, detail

    # vacuity witnesses: an Ok path that writes, and an Err path, both exist
    w1, _, _ = q([ret.guard, is_ok, any_write])
    w2, _, _ = q([ret.guard, is_err])
    res["witness"] = "ok-path-with-write=%s err-path=%s writes=%d" % (w1, w2, len(writes))
    res["witness_ok"] = (w1 == "sat" and w2 == "sat" and len(writes) >= ob.get("min_writes", 3))

    # (a) no write event on any path that returns Err
    guards = [w.guard for w in writes]
    v, model, detail = q([ret.guard, is_err, any_write], get=guards)
    if v == "inconclusive":
        return dict(res, verdict="inconclusive", why="(a) " + detail, queries=queries, solver_s=secs)
    if v == "sat":
        hit = [w.place for w in writes if model.get(w.guard) is True]
        names_l = struct_fields(ob["listener_struct"])
        def nm(p):
            m = re.match(re.escape(lref) + r"\.(\d+)", p)
            return names_l[int(m.group(1))] if m and int(m.group(1)) < len(names_l) else p
        # which fallible call can make the function fail after a store?  (one clause each,
        # so that a known finding about one source does not hide another)
        pos = {n: i for i, n in enumerate(ex.topo)}
        sources = []
        for e in events:
            if e.kind != "call" or e.dest is None:
                continue
            dk = ex.initial.get("discr(%s)" % e.dest)
            if dk is None or getattr(e, "passthrough_of", None):
                continue
            if not re.search(r"^(std::result::)?Result<", (fn.locals.get(e.dest) or "").replace("std::result::", "")) and "Result<" not in (fn.locals.get(e.dest) or ""):
                continue
            before = [w.guard for w in writes if pos.get(w.node, 0) <= pos.get(e.node, 0)]
            if not before:
                continue
            v3, _, _ = q([ret.guard, is_err, e.guard, "(= %s %s)" % (dk.term, engine.bv(1, 64)), engine.OR(*before)])
            if v3 == "sat":
                sources.append(re.sub(r"::<.*?>", "", e.callee).split("(")[0])
        fname = ob["fn_suffix"].strip(":")
        # an error produced by the function itself (`return Err(..)`) rather than by a callee
        calls_ok = []
        for e in events:
            if e.kind == "call" and e.dest is not None and not getattr(e, "passthrough_of", None):
                dk = ex.initial.get("discr(%s)" % e.dest)
                if dk is not None and "Result<" in (fn.locals.get(e.dest) or ""):
                    calls_ok.append(engine.OR(engine.NOT(e.guard), "(= %s %s)" % (dk.term, engine.bv(0, 64))))
        v4, _, _ = q([ret.guard, is_err, any_write] + calls_ok)
        if v4 == "sat":
            sources.append("an explicit `return Err`")
        if sources:
            text = "; ".join("%s returns Err from %s after listener fields were stored" % (fname, s0) for s0 in sorted(set(sources)))
        else:
            text = "%s returns Err after writing listener field(s) %s" % (fname, ", ".join(sorted({nm(p) for p in hit})) or "?")
        rp = mirrun.native_test(ob.get("replay_test", "c07_atomic"), ob.get("replay_filter", ""))
        return dict(res, verdict="counterexample", text=text, model={"written_before_err": hit},
                    queries=queries, solver_s=secs,
                    replay={"reproduced": rp["ran"] and rp["failed"], "path": os.path.join(mirrun.VERIF, "replay/tests/%s.rs" % ob.get("replay_test", "c07_atomic")), "log": rp["log"]})

    # (b)+(c) every write stores the payload of the same-named patch field, only when it is Some
    names_l = struct_fields(ob["listener_struct"])
    names_p = struct_fields(ob["patch_struct"])
    opt_p = optional_fields(ob["patch_struct"])
    preg = re.compile(PAYLOAD_RE % patch)
    written_names = set()
    problems = []
    for w in writes:
        m = re.match(re.escape(lref) + r"\.(\d+)", w.place)
        if not m:
            problems.append("write to %s" % w.place)
            continue
        lname = names_l[int(m.group(1))]
        written_names.add(lname)
        val = getattr(w, "value", None)
        pay = getattr(w, "payload", None)
        term = val if val else (pay.term if pay is not None else None)
        src_idx = None
        if term:
            mm = preg.match(term)
            if mm:
                src_idx = int(mm.group(1))
        if src_idx is None:
            # value produced by a call (to_owned / clone / merge): identify the patch field by
            # the guard: the write must imply that exactly the same-named patch field is Some
            if lname not in names_p:
                problems.append("listener.%s written but the patch has no such field" % lname)
                continue
            src_idx = names_p.index(lname)
        pname = names_p[src_idx]
        if pname != lname:
            problems.append("listener.%s is written from patch.%s" % (lname, pname))
            continue
        if pname not in opt_p:
            continue  # plain (map / repeated) patch field: there is no "absent" state
        dk = "discr(%s.%d)" % (pref, src_idx)
        # the patch is only read, its discriminant symbol is the same in every env
        dsym = ret.env.get(dk)
        if dsym is None:
            problems.append("no discriminant read for patch.%s" % pname)
            continue
        v2, _, det = q([w.guard, engine.NOT("(= %s %s)" % (dsym.term, engine.bv(1, 64)))])
        if v2 != "unsat":
            problems.append("listener.%s can be written while patch.%s is None (%s)" % (lname, pname, v2))
    # (d) completeness (claimed under C08, "the view matches the behaviour"): every patch
    # field with a same-named listener field is recorded
    skip = set(ob.get("not_applied", ())) | {"address"}
    if ob.get("mode") == "atomic":
        names_check = []
    else:
        names_check = names_p
    if ob.get("mode") == "complete":
        problems = []   # only (d) is claimed by this obligation
    for pn in names_check:
        if pn in skip:
            continue
        if pn in names_l and pn not in written_names:
            problems.append("patch.%s is never applied to listener.%s" % (pn, pn))
    # (e) loops fully unrolled
    if unwinds:
        v3, _, _ = q([engine.OR(*[u.guard for u in unwinds])])
        if v3 != "unsat":
            res["note"] = "a loop may iterate beyond the unrolling bound (its body does not write the listener: checked through events)"
    if problems:
        rp = mirrun.native_test("c07_atomic", ob.get("replay_filter", ""))
        return dict(res, verdict="counterexample", text="; ".join(problems), model={"problems": problems},
                    queries=queries, solver_s=secs,
                    replay={"reproduced": rp["ran"] and rp["failed"], "path": os.path.join(mirrun.VERIF, "replay/tests/c07_atomic.rs"), "log": rp["log"]})
    return dict(res, verdict="holds", queries=queries, solver_s=round(secs, 2))
