"""C16 — admission arithmetic of the SessionManager: check_limits / incr / decr (engine M)."""
import re

from .. import engine, solve
from ... import mirrun


class Q:
    def __init__(self, ctx):
        self.ctx, self.n, self.secs = ctx, 0, 0.0

    def __call__(self, asserts, get=()):
        v, model, s, detail = solve.check(self.ctx.script(asserts, get))
        self.n += 1
        self.secs += s
        return v, model, detail


def field_index(struct, field):
    src = open(mirrun.REPO + "/lib/src/server.rs").read()
    m = re.search(r"pub struct %s \{(.*?)\n\}" % struct, src, re.S)
    names = re.findall(r"^\s*(?:pub(?:\([\w:]+\))? )?(\w+):", m.group(1), re.M)
    return names.index(field)


def get(fname):
    fn = mirrun.get_fn("lib", "::" + fname, sig="&mut SessionManager")
    # private helpers of SessionManager called on self are executed in place ("extract method"
    # must not hide a store from the obligation)
    ex = engine.Executor(fn, inline=mirrun.self_methods("lib", "SessionManager"))
    ev = ex.run()
    return fn, ex, ev


def place(idx):
    return "(*_1).%d" % idx


def panics(ev):
    return [e for e in ev if e.kind == "call" and re.search(r"panicking::(panic|panic_fmt|assert_failed)", e.callee)]


def check_limits(ob, tier):
    fn, ex, ev = get("check_limits")
    q = Q(ex.ctx)
    res = {"paths": ex.stats["nodes"], "functions": [fn.name]}
    nb_i, max_i, ca_i = (field_index("SessionManager", f) for f in ("nb_connections", "max_connections", "can_accept"))
    nb, mx = ex.initial.get(place(nb_i)), ex.initial.get(place(max_i))
    rets = [e for e in ev if e.kind == "return"]
    cap = [e for e in ev if e.kind == "call" and re.search(r"::at_capacity$", e.callee)]
    writes = [e for e in ev if e.kind == "write"]
    if nb is None or mx is None or len(rets) != 1 or len(cap) != 1:
        return dict(res, verdict="inconclusive", why="shape: nb=%s max=%s returns=%d at_capacity calls=%d" % (nb, mx, len(rets), len(cap)))
    r0 = rets[0].env["_0"]
    room = engine.AND("(bvult %s %s)" % (nb.term, mx.term), engine.NOT(cap[0].result.term))
    problems = []
    v, _, d = q([rets[0].guard, r0.term, engine.NOT("(bvult %s %s)" % (nb.term, mx.term))])
    if v != "unsat":
        problems.append("check_limits returns true at or above max_connections (%s)" % v)
    v, _, d = q([rets[0].guard, r0.term, cap[0].guard, cap[0].result.term])
    if v != "unsat":
        problems.append("check_limits returns true although the slab is at capacity (%s)" % v)
    v, _, d = q([rets[0].guard, engine.NOT(r0.term), "(bvult %s %s)" % (nb.term, mx.term), cap[0].guard, engine.NOT(cap[0].result.term)])
    if v != "unsat":
        problems.append("check_limits refuses although there is room (%s)" % v)
    # refusing closes the accept gate: can_accept := false on every false path, nothing else written
    caw = [w for w in writes if w.place == place(ca_i)]
    other = [w for w in writes if w.place != place(ca_i)]
    v, _, d = q([rets[0].guard, engine.NOT(r0.term)] + [engine.NOT(w.guard) for w in caw])
    if v != "unsat":
        problems.append("a refusal can leave can_accept untouched (%s)" % v)
    for w in caw:
        v, _, d = q([w.guard, w.value if w.value else "true"])
        if v != "unsat":
            problems.append("can_accept is set to true by check_limits (%s)" % v)
    if other:
        problems.append("check_limits writes %s" % other[0].place)
    w1, _, _ = q([rets[0].guard, r0.term])
    w2, _, _ = q([rets[0].guard, engine.NOT(r0.term)])
    res["witness"] = "check_limits can return true: %s false: %s; can_accept writes: %d" % (w1, w2, len(caw))
    res["witness_ok"] = w1 == "sat" and w2 == "sat" and len(caw) >= 1
    if problems:
        return dict(res, verdict="counterexample", text="; ".join(problems), model={"problems": problems}, queries=q.n, solver_s=q.secs, replay={"reproduced": False, "why": "no native replay"})
    return dict(res, verdict="holds", queries=q.n, solver_s=round(q.secs, 2))


def incr_decr(ob, tier):
    """incr from a state where check_limits returned true keeps nb <= max and never trips the
    hard assert; decr from nb >= 1 never underflows and re-opens accepting only below 90 %"""
    problems, wit = [], []
    tot_q, tot_s, fnames, nodes = 0, 0.0, [], 0
    nb_i, max_i, ca_i = (field_index("SessionManager", f) for f in ("nb_connections", "max_connections", "can_accept"))
    # ---- incr
    fn, ex, ev = get("incr")
    q = Q(ex.ctx)
    fnames.append(fn.name)
    nodes += ex.stats["nodes"]
    nb, mx = ex.initial.get(place(nb_i)), ex.initial.get(place(max_i))
    pre = "(bvult %s %s)" % (nb.term, mx.term)   # caller protocol: check_limits returned true
    writes = [e for e in ev if e.kind == "write" and e.place == place(nb_i)]
    rets = [e for e in ev if e.kind == "return"]
    for p in panics(ev) + [e for e in ev if e.kind == "assert"]:
        v, _, d = q([pre, p.guard])
        if v != "unsat":
            problems.append("incr can panic / overflow although nb_connections < max_connections (%s)" % v)
    for w in writes:
        v, _, d = q([pre, w.guard, engine.NOT("(= %s (bvadd %s %s))" % (w.value, nb.term, engine.bv(1, 64)))])
        if v != "unsat":
            problems.append("incr does not add exactly one (%s)" % v)
    v, _, d = q([pre, rets[0].guard] + [engine.NOT(w.guard) for w in writes])
    if v != "unsat":
        problems.append("incr can return without counting the connection (%s)" % v)
    wit.append(q([pre, rets[0].guard])[0])
    tot_q += q.n
    tot_s += q.secs
    # ---- decr
    fn, ex, ev = get("decr")
    q = Q(ex.ctx)
    fnames.append(fn.name)
    nodes += ex.stats["nodes"]
    nb, mx, ca = ex.initial.get(place(nb_i)), ex.initial.get(place(max_i)), ex.initial.get(place(ca_i))
    pre = engine.AND("(bvuge %s %s)" % (nb.term, engine.bv(1, 64)), "(bvule %s %s)" % (nb.term, mx.term),
                     "(bvule %s %s)" % (mx.term, engine.bv(1 << 20, 64)))
    writes = [e for e in ev if e.kind == "write" and e.place == place(nb_i)]
    caw = [e for e in ev if e.kind == "write" and e.place == place(ca_i)]
    rets = [e for e in ev if e.kind == "return"]
    for p in panics(ev) + [e for e in ev if e.kind == "assert"]:
        v, _, d = q([pre, p.guard])
        if v != "unsat":
            problems.append("decr can panic / overflow from 1 <= nb <= max <= 2^20 (%s)" % v)
    for w in writes:
        v, _, d = q([pre, w.guard, engine.NOT("(= %s (bvsub %s %s))" % (w.value, nb.term, engine.bv(1, 64)))])
        if v != "unsat":
            problems.append("decr does not subtract exactly one (%s)" % v)
    thr = "(bvudiv (bvmul %s %s) %s)" % (mx.term, engine.bv(90, 64), engine.bv(100, 64))
    newnb = "(bvsub %s %s)" % (nb.term, engine.bv(1, 64))
    reopen = engine.AND(engine.NOT(ca.term if ca is not None else "false"), "(bvult %s %s)" % (newnb, thr))
    if ca is None:
        problems.append("decr never reads can_accept")
    else:
        for w in caw:
            v, _, d = q([pre, w.guard, engine.NOT(engine.AND(reopen, w.value))])
            if v != "unsat":
                problems.append("can_accept is written outside the 90 %% hysteresis rule (%s)" % v)
        v, _, d = q([pre, rets[0].guard, reopen] + [engine.NOT(w.guard) for w in caw])
        if v != "unsat":
            problems.append("accepting is not resumed although load dropped below 90 %% (%s)" % v)
        wit.append(q([pre, engine.OR(*[w.guard for w in caw])])[0] if caw else "no-write")
    wit.append(q([pre, rets[0].guard])[0])
    tot_q += q.n
    tot_s += q.secs
    res = {"paths": nodes, "functions": fnames, "witness": "incr/decr reachable under the caller protocol: %s" % wit,
           "witness_ok": all(x == "sat" for x in wit)}
    if problems:
        return dict(res, verdict="counterexample", text="; ".join(problems), model={"problems": problems}, queries=tot_q, solver_s=tot_s, replay={"reproduced": False, "why": "no native replay"})
    return dict(res, verdict="holds", queries=tot_q, solver_s=round(tot_s, 2))


def closure_of(callee):
    """MIR function of the closure type named in a callee's generic arguments"""
    m = re.search(r"\{closure@([\w/.\-]+:\d+:\d+): \d+:\d+\}", callee)
    if not m:
        return None
    path = mirrun.dump("lib")
    idx = mirrun._index["lib"]
    cands = [(s, e) for n in idx for (s, e, head) in idx[n] if re.search(r"\(_1: (&mut |&)?%s[,)]" % re.escape(m.group(0)), head)]
    if len(cands) != 1:
        return None
    from .. import parse
    return parse.load_function(path, *cands[0])


def per_ip_track(ob, tier):
    """track_cluster_ip: the reverse index records the (token, cluster, ip) on every path and
    the forward count grows by exactly one exactly when the triple is new"""
    fn = mirrun.get_fn("lib", "::track_cluster_ip", sig="&mut SessionManager")
    ex = engine.Executor(fn)
    ev = ex.run()
    for i, e in enumerate(ev):
        e.seq = i
    q = Q(ex.ctx)
    res = {"paths": ex.stats["nodes"], "functions": [fn.name]}
    rets = [e for e in ev if e.kind == "return"]
    ins = [e for e in ev if e.kind == "call" and re.search(r"HashSet::<std::net::IpAddr>::insert$", e.callee)]
    slot = [e for e in ev if e.kind == "call" and re.search(r"Entry::<'_, std::net::IpAddr, usize>::or_insert$", e.callee)]
    writes = [e for e in ev if e.kind == "write"]
    if len(rets) != 1 or len(ins) != 1 or len(slot) != 1:
        return dict(res, verdict="inconclusive", why="shape: returns=%d reverse-index inserts=%d forward slots=%d" % (len(rets), len(ins), len(slot)))
    ret, ins, slot = rets[0], ins[0], slot[0]
    problems = []
    if q([ret.guard, engine.NOT(ins.guard)])[0] != "unsat":
        problems.append("track_cluster_ip can return without recording the (token, cluster, ip) in the reverse index")
    new = ins.result.term
    cw = [w for w in writes if w.place == "(*%s)" % slot.dest and w.value]
    if not cw:
        problems.append("the forward count is never advanced")
    for w in cw:
        if q([w.guard, engine.NOT(new)])[0] != "unsat":
            problems.append("the forward count is advanced for a triple that was already tracked")
        old = ex.initial.get(w.place)
        if old is None or q([w.guard, engine.NOT("(= %s (bvadd %s %s))" % (w.value, old.term, engine.bv(1, 64)))])[0] != "unsat":
            problems.append("the forward count is not advanced by exactly one")
    if cw and q([ret.guard, ins.guard, new] + [engine.NOT(w.guard) for w in cw])[0] != "unsat":
        problems.append("a newly tracked triple is not counted")
    wit = [q([ret.guard, new])[0], q([ret.guard, engine.NOT(new)])[0]]
    res["witness"] = "new / repeated triple both reachable: %s; %d counter writes" % (wit, len(cw))
    res["witness_ok"] = all(w == "sat" for w in wit)
    if problems:
        return dict(res, verdict="counterexample", text="; ".join(problems), model={"problems": problems}, queries=q.n, solver_s=q.secs, replay={"reproduced": False, "why": "no native replay"})
    return dict(res, verdict="holds", queries=q.n, solver_s=round(q.secs, 2))


def backward_slice(fn, local):
    """locals the value of `local` may depend on (assignments, call arguments -> call result,
    closure captures, references), over the function's MIR text"""
    deps = {}
    for b in fn.blocks.values():
        for st in list(b["stmts"]) + [b["term"] or ""]:
            m = re.match(r"^\(?(_\d+)(?:[.\s:][^=]*)? = (.*)$", st)
            if not m:
                continue
            rhs = re.sub(r"-> \[.*$", "", m.group(2))
            deps.setdefault(m.group(1), set()).update(re.findall(r"_\d+", rhs))
    seen, work = set(), [local]
    while work:
        x = work.pop()
        if x in seen:
            continue
        seen.add(x)
        work.extend(deps.get(x, ()))
    return seen


def per_ip_limit(ob, tier):
    """cluster_ip_at_limit: false for limit 0 and for an already tracked token, otherwise the
    stored count compared with `>=` against the limit; the limit is override.unwrap_or(global)"""
    problems, fnames, nodes, tq, ts, wit = [], [], 0, 0, 0.0, []
    # ---- effective_max_connections_per_ip
    fn = mirrun.get_fn("lib", "::effective_max_connections_per_ip", sig="&SessionManager")
    ex = engine.Executor(fn)
    ev = ex.run()
    q = Q(ex.ctx)
    fnames.append(fn.name)
    nodes += ex.stats["nodes"]
    rets = [e for e in ev if e.kind == "return"]
    glob_i = field_index("SessionManager", "max_connections_per_ip")
    g0 = ex.initial.get(place(glob_i))
    d = ex.initial.get("discr(_2)")
    pay = ex.initial.get("(_2 as Some).0")
    r0 = rets[0].env.get("_0") if len(rets) == 1 else None
    if g0 is None or d is None or r0 is None or r0.term is None:
        problems.append("effective_max_connections_per_ip: shape (global=%s override discr=%s result=%s)" % (g0, d, r0))
    else:
        if pay is None:
            problems.append("effective_max_connections_per_ip never uses the override value")
        elif q([rets[0].guard, "(= %s %s)" % (d.term, engine.bv(1, 64)), engine.NOT("(= %s %s)" % (r0.term, pay.term))])[0] != "unsat":
            problems.append("a cluster override Some(n) does not resolve to n")
        if q([rets[0].guard, "(= %s %s)" % (d.term, engine.bv(0, 64)), engine.NOT("(= %s %s)" % (r0.term, g0.term))])[0] != "unsat":
            problems.append("no override does not resolve to the global max_connections_per_ip")
        wit.append(q([rets[0].guard])[0])
    tq += q.n
    ts += q.secs
    # ---- cluster_ip_at_limit
    fn = mirrun.get_fn("lib", "::cluster_ip_at_limit", sig="&SessionManager")
    ex = engine.Executor(fn)
    ev = ex.run()
    q = Q(ex.ctx)
    fnames.append(fn.name)
    nodes += ex.stats["nodes"]
    rets = [e for e in ev if e.kind == "return"]
    lim = [e for e in ev if e.kind == "call" and e.callee.endswith("::effective_max_connections_per_ip")]
    isa = [e for e in ev if e.kind == "call" and re.search(r"Option::<&.*>::is_some_and::<", e.callee)]
    trk = [e for e in isa if "HashSet" in e.callee]
    if not trk:
        # any other boolean test made before the count lookup that forces `false`
        fwd = [e for e in ev if e.kind == "call" and re.search(r"HashMap::<String, HashMap<std::net::IpAddr, usize>>::get", e.callee)]
        for i, e in enumerate(ev):
            e.seq = getattr(e, "seq", i)
        first_fwd = min([e.seq for e in fwd], default=10 ** 9)
        trk = [e for e in ev if e.kind == "call" and e.result is not None and e.result.sort == "Bool" and getattr(e, "seq", 0) < first_fwd
               and e.dest and not e.callee.endswith("::effective_max_connections_per_ip")][:1]
    cnt = [e for e in isa if re.search(r"Option::<&usize>::is_some_and", e.callee)]
    if len(rets) != 1 or len(lim) != 1 or len(trk) != 1 or len(cnt) != 1:
        problems.append("cluster_ip_at_limit: shape (returns=%d limit calls=%d tracked tests=%d count tests=%d)" % (len(rets), len(lim), len(trk), len(cnt)))
    else:
        ret, L, tracked, over = rets[0], lim[0].result.term, trk[0].result.term, cnt[0].result.term
        r0 = ret.env["_0"].term
        # the override handed in must be the one resolved
        if lim[0].args[1]["text"].split()[-1] != "_5":
            problems.append("the limit is not resolved from the caller's override")
        zero = "(= %s %s)" % (L, engine.bv(0, 64))
        if q([ret.guard, zero, r0])[0] != "unsat":
            problems.append("limit 0 (unlimited) can report at-limit")
        if q([ret.guard, trk[0].guard, tracked, r0])[0] != "unsat":
            problems.append("a token that already holds the slot can be refused")
        if q([ret.guard, engine.NOT(zero), trk[0].guard, engine.NOT(tracked), engine.NOT("(= %s %s)" % (r0, over))])[0] != "unsat":
            problems.append("with a positive limit and an untracked token the answer is not the count test")
        if q([ret.guard, engine.NOT(zero), engine.NOT(trk[0].guard)])[0] != "unsat":
            problems.append("with a positive limit the reverse index is not consulted")
        # the exemption is for (token, cluster, ip): its test has to depend on all three
        sl = backward_slice(fn, trk[0].dest)
        for nm in ("token", "cluster_id", "ip"):
            if fn.debug.get(nm) not in sl:
                problems.append("the already-tracked exemption does not depend on `%s`: a connection holding a slot elsewhere is waved through a full (cluster, ip)" % nm)
        wit += [q([ret.guard, r0])[0], q([ret.guard, engine.NOT(r0)])[0]]
        tq += q.n
        ts += q.secs
        # ---- the count test itself: (*count as u64) >= limit, limit captured from the resolved value
        cf = closure_of(cnt[0].callee)
        if cf is None:
            problems.append("count-test closure not found")
        else:
            ex2 = engine.Executor(cf)
            ev2 = ex2.run()
            q2 = Q(ex2.ctx)
            fnames.append(cf.name)
            nodes += ex2.stats["nodes"]
            r2 = [e for e in ev2 if e.kind == "return"]
            c0 = ex2.initial.get("(*_2)")
            caps = [v for k, v in ex2.initial.items() if re.match(r"^\(\*_\d+(\.\d+)?\)$", k) and k != "(*_2)"]
            if len(r2) != 1 or c0 is None or len(caps) != 1:
                problems.append("count-test closure: shape (returns=%d count=%s captures=%d)" % (len(r2), c0, len(caps)))
            else:
                got = r2[0].env["_0"].term
                if q2([r2[0].guard, engine.NOT("(= %s (bvuge %s %s))" % (got, c0.term, caps[0].term))])[0] != "unsat":
                    problems.append("the count test is not `count >= limit`")
                wit.append(q2([r2[0].guard, got])[0])
            tq += q2.n
            ts += q2.secs
            # the closure must capture the resolved limit (the local holding the call result)
            cap_local = lim[0].dest
            stmts = [st for b in fn.blocks.values() for st in b["stmts"]]
            ok = False
            for st in stmts:
                m = re.search(r"= \{closure@[^}]*\} \{ \w+: (?:move|copy) (_\d+) \}$", st)
                if m and re.search(re.escape(re.search(r"\{closure@[^}]*\}", cnt[0].callee).group(0)), st):
                    ok = any(re.match(r"^%s = &%s$" % (m.group(1), cap_local), x) for x in stmts)
            if not ok:
                problems.append("the count test does not capture the resolved limit (%s)" % cap_local)
    res = {"paths": nodes, "functions": fnames, "witness": "reachability %s" % wit, "witness_ok": bool(wit) and all(w == "sat" for w in wit),
           "queries": tq, "solver_s": round(ts, 2)}
    if problems:
        return dict(res, verdict="counterexample", text="; ".join(problems), model={"problems": problems}, replay={"reproduced": False, "why": "no native replay"})
    return dict(res, verdict="holds")


GATES = [
    ("::connect", "_1: &mut mux::router::Router", r"::backend_from_request|::new_h[12]_client$|::start_stream"),
    ("::connect_to_backend", "_1: &mut TcpSession", r"::backend_from_cluster_id$|::set_back_socket$"),
]


def per_ip_gate(ob, tier):
    """the two call sites of the per-(cluster, ip) gate: whenever the gate is consulted, a
    backend is only selected / connected after it answered `false` AND the connection was
    tracked; an at-limit answer returns Err before any backend work"""
    problems, fnames, nodes, tq, ts, wit = [], [], 0, 0, 0.0, []
    for suffix, sig, attempt_pat in GATES:
        fn = mirrun.get_fn("lib", suffix, sig=sig)
        ex = engine.Executor(fn, loop_bound=lambda f, h: 2, max_nodes=200000)
        ev = ex.run()
        for i, e in enumerate(ev):
            e.seq = i
        q = Q(ex.ctx)
        fnames.append(fn.name)
        nodes += ex.stats["nodes"]
        who = fn.name.split("::")[-1]
        gate = [e for e in ev if e.kind == "call" and e.callee.endswith("::cluster_ip_at_limit")]
        track = [e for e in ev if e.kind == "call" and e.callee.endswith("::track_cluster_ip")]
        attempts = [e for e in ev if e.kind == "call" and re.search(attempt_pat, e.callee)]
        rets = [e for e in ev if e.kind == "return"]
        if len(gate) != 1 or len(track) != 1 or not attempts or len(rets) != 1:
            problems.append("%s: shape (gate calls=%d track calls=%d backend events=%d)" % (who, len(gate), len(track), len(attempts)))
            continue
        g, t = gate[0], track[0]
        lim = g.result.term
        for a in attempts:
            nm = a.callee.split("::")[-1][:28]
            if a.seq < g.seq:
                if q([a.guard, g.guard])[0] != "unsat":
                    problems.append("%s: %s happens before the per-IP gate is consulted" % (who, nm))
                continue
            if q([a.guard, g.guard, lim])[0] != "unsat":
                problems.append("%s: %s is reachable although the per-IP gate answered at-limit" % (who, nm))
            if q([a.guard, g.guard, engine.NOT(t.guard)])[0] != "unsat":
                problems.append("%s: %s is reachable past the gate without tracking the connection" % (who, nm))
        if q([t.guard, engine.NOT(engine.AND(g.guard, engine.NOT(lim)))])[0] != "unsat":
            problems.append("%s: a connection is tracked without the gate having admitted it" % who)
        # the same token / cluster / ip are checked and tracked
        if g.args[1]["val"].term != t.args[1]["val"].term:
            problems.append("%s: gate and tracking use different tokens" % who)
        # at-limit => the function returns Err
        r = rets[0]
        d = r.env.get("discr(_0)")
        if d is None or q([r.guard, g.guard, lim, "(= %s %s)" % (d.term, engine.bv(0, 64))])[0] != "unsat":
            problems.append("%s: an at-limit answer does not end in Err" % who)
        wit += [q([g.guard, lim])[0], q([t.guard])[0], q([engine.OR(*[a.guard for a in attempts if a.seq > g.seq])])[0]]
        tq += q.n
        ts += q.secs
    res = {"paths": nodes, "functions": fnames, "witness": "gate refusal / tracking / backend work reachable: %s" % wit,
           "witness_ok": bool(wit) and all(w == "sat" for w in wit), "queries": tq, "solver_s": round(ts, 2)}
    if problems:
        return dict(res, verdict="counterexample", text="; ".join(problems), model={"problems": problems}, replay={"reproduced": False, "why": "no native replay"})
    return dict(res, verdict="holds")


def timer_hint(ob, tier):
    """Timer::poll_to: a slot's `next_tick` (when the event loop has to come back for it) only
    ever moves to the minimum of what it was and the tick of the entry just visited; if a later
    entry of the same slot overwrote it, an earlier pending timeout would be delivered up to a
    wheel lap late (stuck sessions are not reclaimed within their timeout)."""
    src = open(mirrun.REPO + "/lib/src/timer.rs").read()

    def fields(struct):
        m = re.search(r"struct %s(?:<[^{]*>)? \{(.*?)\n\}" % struct, src, re.S)
        return re.findall(r"^\s*(?:pub(?:\([\w:]+\))? )?(\w+):", m.group(1), re.M)
    nt_i = fields("WheelEntry").index("next_tick")
    links_i, tick_i = fields("Entry").index("links"), fields("EntryLinks").index("tick")
    fn = mirrun.get_fn("lib", "::poll_to", sig="&mut Timer<T>")
    ex = engine.Executor(fn, loop_bound=lambda f, h: 1)
    ev = ex.run()
    for i, e in enumerate(ev):
        e.seq = i
    q = Q(ex.ctx)
    res = {"paths": ex.stats["nodes"], "functions": [fn.name]}
    it0 = [e for e in ev if e.node[1] and all(i == 0 for _, i in e.node[1])]
    # stores into some wheel[slot].next_tick that are not the TICK_MAX reset
    ws = [e for e in it0 if e.kind == "write" and re.match(r"^\(\*_\d+\)\.%d$" % nt_i, e.place) and e.value and getattr(e, "sort", None) == 64
          and not e.value.startswith("|const.")]
    hints = [v.term for k, v in ex.initial.items() if re.match(r"^\(\*_\d+\)\.%d$" % nt_i, k)]
    ticks = [v.term for k, v in ex.initial.items() if re.match(r"^\(\*_\d+\)\.%d\.%d$" % (links_i, tick_i), k)]
    if not ws or not ticks:
        return dict(res, verdict="inconclusive", why="shape: next_tick stores=%d entry tick reads=%d" % (len(ws), len(ticks)))
    problems = []
    for w in ws:
        if not any(q([w.guard, engine.NOT("(bvule %s %s)" % (w.value, t))])[0] == "unsat" for t in ticks):
            problems.append("a slot's next_tick can be set later than the tick of the pending entry just visited")
        if not hints or not any(q([w.guard, engine.NOT("(bvule %s %s)" % (w.value, h))])[0] == "unsat" for h in hints):
            problems.append("a slot's next_tick can move later than its previous value: an earlier pending timeout of the same slot is forgotten until the next lap")
    wit = [q([w.guard])[0] for w in ws]
    res["witness"] = "hint store reachable: %s; %d old-hint reads, %d entry-tick reads" % (wit, len(hints), len(ticks))
    res["witness_ok"] = all(x == "sat" for x in wit)
    res["queries"], res["solver_s"] = q.n, round(q.secs, 2)
    if problems:
        return dict(res, verdict="counterexample", text="; ".join(sorted(set(problems))), model={"problems": problems}, replay={"reproduced": False, "why": "no native replay"})
    return dict(res, verdict="holds")


def tcp_backend_handle(ob, tier):
    """TcpSession::connect_to_backend: BackendMap::backend_from_cluster_id counted the new
    connection on the backend it returned (Backend::try_connect -> inc_connections); the session
    has to keep that handle in `self.backend`, because TcpSession::remove_backend (the only place
    that calls dec_connections) and fail_backend_connection (the only place that records a
    failure) act on `self.backend` alone.  Decided: every path that returns Ok after the backend
    was obtained stores Some(handle) into self.backend."""
    src = open(mirrun.REPO + "/lib/src/tcp.rs").read()
    m = re.search(r"pub struct TcpSession \{(.*?)\n\}", src, re.S)
    names = re.findall(r"^\s*(?:pub(?:\([\w:]+\))? )?(\w+):", re.sub(r"//.*", "", m.group(1)), re.M)
    place = "(*_1).%d" % names.index("backend")
    fn = mirrun.get_fn("lib", "::connect_to_backend", sig="_1: &mut TcpSession")
    ex = engine.Executor(fn, loop_bound=lambda f, h: 2, max_nodes=200000)
    ev = ex.run()
    for i, e in enumerate(ev):
        e.seq = i
    q = Q(ex.ctx)
    res = {"paths": ex.stats["nodes"], "functions": [fn.name]}
    got = [e for e in ev if e.kind == "call" and e.callee.endswith("::backend_from_cluster_id")]
    rets = [e for e in ev if e.kind == "return"]
    if len(got) != 1 or len(rets) != 1:
        return dict(res, verdict="inconclusive", why="shape: backend_from_cluster_id calls=%d" % len(got))
    d0 = rets[0].env.get("discr(_0)")
    if d0 is None:
        return dict(res, verdict="inconclusive", why="shape: result discriminant unknown")
    ok = engine.AND(rets[0].guard, got[0].guard, "(= %s %s)" % (d0.term, engine.bv(0, 64)))
    stores = [e for e in ev if e.kind == "write" and e.place == place and e.seq > got[0].seq]
    stmts = [st for b in fn.blocks.values() for st in b["stmts"]]

    def is_some(w):
        t = getattr(w, "text", "") or ""
        if re.search(r"::Some\(", t) or getattr(w, "payload", None) is not None:
            return True
        m2 = re.match(r"^(?:move|copy) (_\d+)$", t)
        return bool(m2) and any(re.match(r"^%s = .*::Some\(" % re.escape(m2.group(1)), st) for st in stmts)
    somes = [w for w in stores if is_some(w)]
    problems = []
    if q([ok] + [engine.NOT(w.guard) for w in somes])[0] != "unsat":
        problems.append("connect_to_backend can return Ok without storing the backend handle into self.backend: the connection counted by try_connect is never given back (remove_backend finds None), nor is a connection failure ever recorded on the backend")
    rp = None
    if problems:
        import os
        r = mirrun.native_test("c16_tcp_backend_count", "")
        rp = {"reproduced": r["ran"] and r["failed"], "path": os.path.join(mirrun.VERIF, "replay/tests/c16_tcp_backend_count.rs"), "log": r["log"]}
    wit = [q([ok])[0]]
    res["witness"] = "Ok return after a backend was obtained is reachable: %s; %d stores into self.backend" % (wit, len(stores))
    res["witness_ok"] = all(w == "sat" for w in wit)
    res["queries"], res["solver_s"] = q.n, round(q.secs, 2)
    if problems:
        return dict(res, verdict="counterexample", text="; ".join(problems), model={"problems": problems}, replay=rp)
    return dict(res, verdict="holds")


def run(ob, tier):
    if ob["which"] == "tcp_backend_handle":
        return tcp_backend_handle(ob, tier)
    if ob["which"] == "timer_hint":
        return timer_hint(ob, tier)
    return {"check_limits": check_limits, "incr_decr": incr_decr, "per_ip_track": per_ip_track, "per_ip_limit": per_ip_limit,
            "per_ip_gate": per_ip_gate}[ob["which"]](ob, tier)
