"""C16 — admission arithmetic of the SessionManager: check_limits / incr / decr (engine M)."""
import re

from .. import engine, solve
from ... import mirrun


class Q:
    def __init__(self, ctx):
        self.ctx, self.n, self.secs = ctx, 0, 0.0

    def __call__(self, asserts, get=()):
        v, model, s, detail = solve.check(self.ctx.script(asserts, get))
        self.n += 1
        self.secs += s
        return v, model, detail


def field_index(struct, field):
    src = open(mirrun.REPO + "/lib/src/server.rs").read()
    m = re.search(r"pub struct %s \{(.*?)\n\}" % struct, src, re.S)
    names = re.findall(r"^\s*(?:pub(?:\([\w:]+\))? )?(\w+):", m.group(1), re.M)
    return names.index(field)


def get(fname):
    fn = mirrun.get_fn("lib", "::" + fname, sig="&mut SessionManager")
    ex = engine.Executor(fn)
    ev = ex.run()
    return fn, ex, ev


def place(idx):
    return "(*_1).%d" % idx


def panics(ev):
    return [e for e in ev if e.kind == "call" and re.search(r"panicking::(panic|panic_fmt|assert_failed)", e.callee)]


def check_limits(ob, tier):
    fn, ex, ev = get("check_limits")
    q = Q(ex.ctx)
    res = {"paths": ex.stats["nodes"], "functions": [fn.name]}
    nb_i, max_i, ca_i = (field_index("SessionManager", f) for f in ("nb_connections", "max_connections", "can_accept"))
    nb, mx = ex.initial.get(place(nb_i)), ex.initial.get(place(max_i))
    rets = [e for e in ev if e.kind == "return"]
    cap = [e for e in ev if e.kind == "call" and re.search(r"::at_capacity$", e.callee)]
    writes = [e for e in ev if e.kind == "write"]
    if nb is None or mx is None or len(rets) != 1 or len(cap) != 1:
        return dict(res, verdict="inconclusive", why="shape: nb=%s max=%s returns=%d at_capacity calls=%d" % (nb, mx, len(rets), len(cap)))
    r0 = rets[0].env["_0"]
    room = engine.AND("(bvult %s %s)" % (nb.term, mx.term), engine.NOT(cap[0].result.term))
    problems = []
    v, _, d = q([rets[0].guard, r0.term, engine.NOT("(bvult %s %s)" % (nb.term, mx.term))])
    if v != "unsat":
        problems.append("check_limits returns true at or above max_connections (%s)" % v)
    v, _, d = q([rets[0].guard, r0.term, cap[0].guard, cap[0].result.term])
    if v != "unsat":
        problems.append("check_limits returns true although the slab is at capacity (%s)" % v)
    v, _, d = q([rets[0].guard, engine.NOT(r0.term), "(bvult %s %s)" % (nb.term, mx.term), cap[0].guard, engine.NOT(cap[0].result.term)])
    if v != "unsat":
        problems.append("check_limits refuses although there is room (%s)" % v)
    # refusing closes the accept gate: can_accept := false on every false path, nothing else written
    caw = [w for w in writes if w.place == place(ca_i)]
    other = [w for w in writes if w.place != place(ca_i)]
    v, _, d = q([rets[0].guard, engine.NOT(r0.term)] + [engine.NOT(w.guard) for w in caw])
    if v != "unsat":
        problems.append("a refusal can leave can_accept untouched (%s)" % v)
    for w in caw:
        v, _, d = q([w.guard, w.value if w.value else "true"])
        if v != "unsat":
            problems.append("can_accept is set to true by check_limits (%s)" % v)
    if other:
        problems.append("check_limits writes %s" % other[0].place)
    w1, _, _ = q([rets[0].guard, r0.term])
    w2, _, _ = q([rets[0].guard, engine.NOT(r0.term)])
    res["witness"] = "check_limits can return true: %s false: %s; can_accept writes: %d" % (w1, w2, len(caw))
    res["witness_ok"] = w1 == "sat" and w2 == "sat" and len(caw) >= 1
    if problems:
        return dict(res, verdict="counterexample", text="; ".join(problems), model={"problems": problems}, queries=q.n, solver_s=q.secs, replay={"reproduced": False, "why": "no native replay"})
    return dict(res, verdict="holds", queries=q.n, solver_s=round(q.secs, 2))


def incr_decr(ob, tier):
    """incr from a state where check_limits returned true keeps nb <= max and never trips the
    hard assert; decr from nb >= 1 never underflows and re-opens accepting only below 90 %"""
    problems, wit = [], []
    tot_q, tot_s, fnames, nodes = 0, 0.0, [], 0
    nb_i, max_i, ca_i = (field_index("SessionManager", f) for f in ("nb_connections", "max_connections", "can_accept"))
    # ---- incr
    fn, ex, ev = get("incr")
    q = Q(ex.ctx)
    fnames.append(fn.name)
    nodes += ex.stats["nodes"]
    nb, mx = ex.initial.get(place(nb_i)), ex.initial.get(place(max_i))
    pre = "(bvult %s %s)" % (nb.term, mx.term)   # caller protocol: check_limits returned true
    writes = [e for e in ev if e.kind == "write" and e.place == place(nb_i)]
    rets = [e for e in ev if e.kind == "return"]
    for p in panics(ev) + [e for e in ev if e.kind == "assert"]:
        v, _, d = q([pre, p.guard])
        if v != "unsat":
            problems.append("incr can panic / overflow although nb_connections < max_connections (%s)" % v)
    for w in writes:
        v, _, d = q([pre, w.guard, engine.NOT("(= %s (bvadd %s %s))" % (w.value, nb.term, engine.bv(1, 64)))])
        if v != "unsat":
            problems.append("incr does not add exactly one (%s)" % v)
    v, _, d = q([pre, rets[0].guard] + [engine.NOT(w.guard) for w in writes])
    if v != "unsat":
        problems.append("incr can return without counting the connection (%s)" % v)
    wit.append(q([pre, rets[0].guard])[0])
    tot_q += q.n
    tot_s += q.secs
    # ---- decr
    fn, ex, ev = get("decr")
    q = Q(ex.ctx)
    fnames.append(fn.name)
    nodes += ex.stats["nodes"]
    nb, mx, ca = ex.initial.get(place(nb_i)), ex.initial.get(place(max_i)), ex.initial.get(place(ca_i))
    pre = engine.AND("(bvuge %s %s)" % (nb.term, engine.bv(1, 64)), "(bvule %s %s)" % (nb.term, mx.term),
                     "(bvule %s %s)" % (mx.term, engine.bv(1 << 20, 64)))
    writes = [e for e in ev if e.kind == "write" and e.place == place(nb_i)]
    caw = [e for e in ev if e.kind == "write" and e.place == place(ca_i)]
    rets = [e for e in ev if e.kind == "return"]
    for p in panics(ev) + [e for e in ev if e.kind == "assert"]:
        v, _, d = q([pre, p.guard])
        if v != "unsat":
            problems.append("decr can panic / overflow from 1 <= nb <= max <= 2^20 (%s)" % v)
    for w in writes:
        v, _, d = q([pre, w.guard, engine.NOT("(= %s (bvsub %s %s))" % (w.value, nb.term, engine.bv(1, 64)))])
        if v != "unsat":
            problems.append("decr does not subtract exactly one (%s)" % v)
    thr = "(bvudiv (bvmul %s %s) %s)" % (mx.term, engine.bv(90, 64), engine.bv(100, 64))
    newnb = "(bvsub %s %s)" % (nb.term, engine.bv(1, 64))
    reopen = engine.AND(engine.NOT(ca.term if ca is not None else "false"), "(bvult %s %s)" % (newnb, thr))
    if ca is None:
        problems.append("decr never reads can_accept")
    else:
        for w in caw:
            v, _, d = q([pre, w.guard, engine.NOT(engine.AND(reopen, w.value))])
            if v != "unsat":
                problems.append("can_accept is written outside the 90 %% hysteresis rule (%s)" % v)
        v, _, d = q([pre, rets[0].guard, reopen] + [engine.NOT(w.guard) for w in caw])
        if v != "unsat":
            problems.append("accepting is not resumed although load dropped below 90 %% (%s)" % v)
        wit.append(q([pre, engine.OR(*[w.guard for w in caw])])[0] if caw else "no-write")
    wit.append(q([pre, rets[0].guard])[0])
    tot_q += q.n
    tot_s += q.secs
    res = {"paths": nodes, "functions": fnames, "witness": "incr/decr reachable under the caller protocol: %s" % wit,
           "witness_ok": all(x == "sat" for x in wit)}
    if problems:
        return dict(res, verdict="counterexample", text="; ".join(problems), model={"problems": problems}, queries=tot_q, solver_s=tot_s, replay={"reproduced": False, "why": "no native replay"})
    return dict(res, verdict="holds", queries=tot_q, solver_s=round(tot_s, 2))


def run(ob, tier):
    return {"check_limits": check_limits, "incr_decr": incr_decr}[ob["which"]](ob, tier)
