"""C07 — worker side: a frontend the worker rejects leaves no trace in the listener
(engine M).  HttpProxy::add_http_frontend / HttpsProxy::add_https_frontend /
TcpProxy::add_tcp_front: every call that mutates the listener other than the fallible
insertion itself (today: set_tags) must not be followed by an Err return; and (C07-4 class)
ConfigState::{remove,activate,deactivate}_listener must decode the listener type with the
fallible conversion and stop on an unknown value before touching the state."""
import re

from .. import engine
from ... import mirrun
from .c16 import Q

SITES = [
    ("::add_http_frontend", "&mut http::HttpProxy", r"http::HttpListener::", r"::add_http_front$"),
    ("::add_https_frontend", "&mut https::HttpsProxy", r"https::HttpsListener::", r"::add_https_front(_with_hsts_origin)?$"),
]


def worker_add(ob, tier):
    problems, fnames, nodes, tq, ts, wit = [], [], 0, 0, 0.0, []
    for suffix, sig, lpat, fallible in SITES:
        fn = mirrun.get_fn("lib", suffix, sig=sig)
        ex = engine.Executor(fn, loop_bound=lambda f, h: 2, max_nodes=200000)
        ev = ex.run()
        for i, e in enumerate(ev):
            e.seq = i
        q = Q(ex.ctx)
        fnames.append(fn.name)
        nodes += ex.stats["nodes"]
        who = fn.name.split("::")[-1]
        rets = [e for e in ev if e.kind == "return"]
        add = [e for e in ev if e.kind == "call" and re.search(lpat, e.callee) and re.search(fallible, e.callee)]
        # anything called on the listener through DerefMut (a `&mut self` receiver), whatever
        # trait the method belongs to
        dm = {d.dest for d in ev if d.kind == "call" and d.callee.endswith("DerefMut>::deref_mut") and "Listener" in d.callee}
        muts = [e for e in ev if e.kind == "call" and e not in add and e.args and e.args[0]["text"].split()[-1] in dm]
        if len(rets) != 1 or len(add) != 1:
            problems.append("%s: shape (fallible insertions=%d)" % (who, len(add)))
            continue
        d0 = rets[0].env.get("discr(_0)")
        if d0 is None:
            problems.append("%s: result discriminant unknown" % who)
            continue
        err = engine.AND(rets[0].guard, "(= %s %s)" % (d0.term, engine.bv(1, 64)))
        for m in muts:
            if q([err, m.guard])[0] != "unsat":
                problems.append("%s: %s mutates the listener on a path that still returns Err (a rejected frontend overwrites it)" % (who, m.callee.split("::")[-1]))
        wit += [q([err, add[0].guard])[0], q([rets[0].guard, engine.NOT(err)])[0]]
        res_m = len(muts)
        tq += q.n
        ts += q.secs
    res = {"paths": nodes, "functions": fnames, "witness": "rejection by the listener / acceptance reachable: %s" % wit,
           "witness_ok": bool(wit) and all(w == "sat" for w in wit), "queries": tq, "solver_s": round(ts, 2)}
    if problems:
        rp = {"reproduced": False, "why": "no native replay for this site"}
        if any(p.startswith("add_https_frontend") for p in problems):
            import os
            r = mirrun.native_test("c07_worker_front", "", rustflags="--cfg sozu_verif")
            rp = {"reproduced": r["ran"] and r["failed"], "path": os.path.join(mirrun.VERIF, "replay/tests/c07_worker_front.rs"), "log": r["log"]}
        return dict(res, verdict="counterexample", text="; ".join(problems), model={"problems": problems}, replay=rp)
    return dict(res, verdict="holds")


def listener_type(ob, tier):
    """ConfigState::{remove,activate,deactivate}_listener: the `proxy` discriminator of the
    request is decoded with the fallible ListenerType::try_from; an unknown value returns Err
    and nothing of the state is touched on that path (the prost accessor `.proxy()` would
    silently turn an unknown value into HTTP and apply the command to that listener)"""
    problems, fnames, nodes, tq, ts, wit = [], [], 0, 0, 0.0, []
    for name in ("remove_listener", "activate_listener", "deactivate_listener"):
        fn = mirrun.get_fn("command", "::" + name, sig="&mut ConfigState")
        ex = engine.Executor(fn, loop_bound=lambda f, h: 2, max_nodes=200000)
        ev = ex.run()
        q = Q(ex.ctx)
        fnames.append(fn.name)
        nodes += ex.stats["nodes"]
        tf = [e for e in ev if e.kind == "call" and e.callee.endswith("<ListenerType as TryFrom<i32>>::try_from")]
        rets = [e for e in ev if e.kind == "return"]
        if len(tf) != 1 or len(rets) != 1:
            problems.append("%s does not decode the listener type with the fallible ListenerType::try_from (an unknown value is not rejected: the prost accessor maps it to HTTP)" % name)
            continue
        t = tf[0]
        a = t.args[0]["val"]
        if not any(k.startswith("(*_2).") and v.term == a.term for k, v in ex.initial.items()):
            problems.append("%s: try_from is not applied to a field of the request" % name)
        td = t.result_discr or ex.initial.get("discr(%s)" % t.dest)
        bad = engine.AND(t.guard, "(= %s %s)" % (td.term, engine.bv(1, 64)))
        touch = [e for e in ev if (e.kind in ("write", "havoc") and re.match(r"^\(\*_1\)", e.place))
                 or (e.kind == "call" and any(x["text"].split()[-1] == "_1" or (x["val"].ref or "").startswith("(*_1)") and x["val"].mut for x in e.args))]
        for e in touch:
            if q([bad, e.guard])[0] != "unsat":
                problems.append("%s touches the state although the listener type is unknown" % name)
                break
        # the Err of the conversion leaves through `?` (from_residual builds the Err result)
        fr = [e for e in ev if e.kind == "call" and re.search(r"FromResidual<.*>>::from_residual$", e.callee)]
        if not fr or q([rets[0].guard, bad, engine.NOT(engine.OR(*[e.guard for e in fr]))])[0] != "unsat":
            problems.append("%s does not return Err for an unknown listener type" % name)
        wit += [q([bad])[0], q([engine.OR(*[e.guard for e in touch])])[0] if touch else "none"]
        tq += q.n
        ts += q.secs
    res = {"paths": nodes, "functions": fnames, "witness": "unknown-type branch / state access reachable: %s" % wit,
           "witness_ok": bool(wit) and all(w == "sat" for w in wit), "queries": tq, "solver_s": round(ts, 2)}
    if problems:
        return dict(res, verdict="counterexample", text="; ".join(problems), model={"problems": problems}, replay={"reproduced": False, "why": "no native replay"})
    return dict(res, verdict="holds")


def run(ob, tier):
    return {"worker_add": worker_add, "listener_type": listener_type}[ob["which"]](ob, tier)
