"""C11 — Channel::writable keeps asking for writability until the back buffer is drained
(engine M).  The channel is driven by an edge-triggered poll: WRITABLE *interest* may only be
dropped after the buffer was seen empty with no write since; a would-block clears the
*readiness* bit and leaves the interest, otherwise the tail of a large message is never
flushed (the peer holds a truncated frame until something else is queued).  Socket and
buffer calls are uninterpreted, the Ready bit algebra is exact (same models as C01/C18)."""
import re

from .. import engine
from ... import mirrun
from .c16 import Q
from . import c01


def writable_interest(ob, tier):
    bits = c01.ready_bits()
    src = open(mirrun.REPO + "/command/src/channel.rs").read()
    m = re.search(r"pub struct Channel<Tx, Rx> \{(.*?)\n\}", src, re.S)
    fields = re.findall(r"^\s*(?:pub(?:\([\w:]+\))? )?(\w+):", re.sub(r"//.*", "", m.group(1)), re.M)
    interest, readiness = "(*_1).%d" % fields.index("interest"), "(*_1).%d" % fields.index("readiness")
    fn = mirrun.get_fn("command", "::writable", sig="&mut Channel<Tx, Rx>")
    ex = engine.Executor(fn, loop_bound=lambda f, h: 2, models=c01.ready_models(bits))
    ev = ex.run()
    for i, e in enumerate(ev):
        e.seq = i
    q = Q(ex.ctx)
    res = {"paths": ex.stats["nodes"], "functions": [fn.name]}
    drops = [e for e in ev if e.kind == "ready_remove" and e.place == interest and e.bit == "WRITABLE"]
    clears = [e for e in ev if e.kind == "ready_remove" and e.place == readiness and e.bit == "WRITABLE"]
    avail = [e for e in ev if e.kind == "call" and e.callee.endswith("Buffer::available_data") and e.result is not None]
    writes = [e for e in ev if e.kind == "call" and re.search(r"as (std::io::)?Write>::write$", e.callee)]
    kinds = [e for e in ev if e.kind == "call" and e.callee.endswith("io::Error::kind")]
    rets = [e for e in ev if e.kind == "return"]
    if not drops or not avail or not writes or len(rets) != 1:
        return dict(res, verdict="inconclusive", why="shape: interest drops=%d available_data=%d writes=%d" % (len(drops), len(avail), len(writes)))
    problems = []
    for d in drops:
        seen_empty = []
        for a in avail:
            if a.seq < d.seq:
                later = [w.guard for w in writes if a.seq < w.seq < d.seq]
                seen_empty.append(engine.AND(a.guard, "(= %s %s)" % (a.result.term, engine.bv(0, 64)), engine.NOT(engine.OR(*later)) if later else "true"))
        if q([d.guard, engine.NOT(engine.OR(*seen_empty))])[0] != "unsat":
            problems.append("WRITABLE interest can be dropped although the back buffer was not seen empty since the last write (pending bytes are never flushed)")
    # a would-block (the only non-fatal write error) must clear the readiness bit
    if not clears:
        problems.append("no path clears the WRITABLE readiness bit (a would-block would spin)")
    # Ok(count) return with bytes possibly pending => interest kept or readiness cleared (never both untouched after an Err write)
    d0 = rets[0].env.get("discr(_0)")
    if d0 is not None and kinds:
        okret = engine.AND(rets[0].guard, "(= %s %s)" % (d0.term, engine.bv(0, 64)))
        if q([okret, engine.OR(*[k.guard for k in kinds]), engine.NOT(engine.OR(*[c.guard for c in clears]))])[0] != "unsat":
            problems.append("writable() returns Ok after a write error without clearing the WRITABLE readiness bit")
    wit = [q([engine.OR(*[d.guard for d in drops])])[0], q([engine.OR(*[c.guard for c in clears])])[0] if clears else "none"]
    res["witness"] = "drained path / would-block path reachable: %s; %d interest drops, %d buffer observations" % (wit, len(drops), len(avail))
    res["witness_ok"] = all(w == "sat" for w in wit)
    res["queries"], res["solver_s"] = q.n, round(q.secs, 2)
    if problems:
        return dict(res, verdict="counterexample", text="; ".join(problems), model={"problems": problems}, replay={"reproduced": False, "why": "no native replay"})
    return dict(res, verdict="holds")


def run(ob, tier):
    return {"writable_interest": writable_interest}[ob["which"]](ob, tier)
