"""C09 — the master's verdict matches what the workers did (engine M obligations)."""
import os
import re

from .. import engine, solve
from ... import mirrun


class Q:
    def __init__(self, ctx):
        self.ctx, self.n, self.secs = ctx, 0, 0.0

    def __call__(self, asserts, get=()):
        v, model, s, detail = solve.check(self.ctx.script(asserts, get))
        self.n += 1
        self.secs += s
        return v, model, detail


def replay(filter_, features=("bin",)):
    rp = mirrun.native_test("c09_verdict", filter_, features=features)
    return {"reproduced": rp["ran"] and rp["failed"], "path": os.path.join(mirrun.VERIF, "replay/tests/c09_verdict.rs"), "log": rp["log"]}


def flag_propagates(ob, tier):
    """handle_finishing_task(task_id, task, timed_out): the flag handed to on_finish is the
    parameter, on every path"""
    fn = mirrun.get_fn("bin", "::handle_finishing_task")
    ex = engine.Executor(fn)
    ev = ex.run()
    q = Q(ex.ctx)
    param = fn.debug.get("timed_out")
    calls = [e for e in ev if e.kind == "call" and re.search(r"GatheringTask>::on_finish$", e.callee)]
    rets = [e for e in ev if e.kind == "return"]
    res = {"paths": ex.stats["nodes"], "functions": [fn.name]}
    if not param or len(calls) == 0 or len(rets) != 1:
        return dict(res, verdict="inconclusive", why="on_finish call / timed_out parameter not found (%d calls)" % len(calls))
    pv = ex.initial.get(param)
    pterm = pv.term if pv else ex.read({}, param, "bool").term
    # witness: the call is reachable with the flag true and with it false
    w = [q([c.guard, pterm])[0] for c in calls] + [q([c.guard, engine.NOT(pterm)])[0] for c in calls]
    res["witness"] = "on_finish reachable with timed_out true/false: %s" % w
    res["witness_ok"] = all(x == "sat" for x in w)
    # every path reaches exactly one on_finish
    v0, _, d0 = q([rets[0].guard, engine.NOT(engine.OR(*[c.guard for c in calls]))])
    bad = []
    for c in calls:
        if len(c.args) < 4:
            return dict(res, verdict="inconclusive", why="on_finish arity %d" % len(c.args))
        a = c.args[3]["val"]
        if a.sort != "Bool":
            return dict(res, verdict="inconclusive", why="flag operand is not a bool")
        v, model, d = q([c.guard, engine.NOT("(= %s %s)" % (a.term, pterm))], get=[pterm, a.term])
        if v == "inconclusive":
            return dict(res, verdict="inconclusive", why=d, queries=q.n, solver_s=q.secs)
        if v == "sat":
            bad.append("on_finish receives timed_out=%s while handle_finishing_task was called with timed_out=%s"
                       % (str(model.get(a.term, c.args[3]["text"])).lower(), str(model.get(pterm)).lower()))
    if v0 != "unsat":
        bad.append("a path returns without calling on_finish (%s)" % v0)
    if bad:
        return dict(res, verdict="counterexample", text="; ".join(bad), model={"problems": bad},
                    queries=q.n, solver_s=q.secs, replay=replay("silent_worker"))
    return dict(res, verdict="holds", queries=q.n, solver_s=round(q.secs, 2))


def verdict_function(ob, tier):
    """WorkerTask::on_finish: finish_ok only when errors == 0 and not timed out; exactly one
    of finish_ok / finish_failure on every path that returns"""
    fn = mirrun.get_fn("bin", "::on_finish", sig="Box<WorkerTask>")
    ex = engine.Executor(fn, loop_bound=lambda f, h: 2)
    ev = ex.run()
    q = Q(ex.ctx)
    res = {"paths": ex.stats["nodes"], "functions": [fn.name]}
    oks = [e for e in ev if e.kind == "call" and re.search(r"finish_ok", e.callee)]
    fails = [e for e in ev if e.kind == "call" and re.search(r"finish_failure", e.callee)]
    rets = [e for e in ev if e.kind == "return"]
    if not oks or not fails or len(rets) != 1:
        return dict(res, verdict="inconclusive", why="finish_ok/finish_failure/return events: %d/%d/%d" % (len(oks), len(fails), len(rets)))
    timed = fn.debug.get("timed_out")
    errors_local = fn.debug.get("errors")
    tterm = (ex.initial.get(timed) or ex.read({}, timed, "bool")).term
    bad = []
    w = []
    for c in oks:
        ev_err = c.env.get(errors_local)
        if ev_err is None or ev_err.term is None:
            return dict(res, verdict="inconclusive", why="`errors` not tracked at finish_ok")
        zero = engine.bv(0, ev_err.sort)
        w.append(q([c.guard])[0])
        v, model, d = q([c.guard, engine.OR(tterm, engine.NOT("(= %s %s)" % (ev_err.term, zero)))], get=[tterm, ev_err.term])
        if v == "inconclusive":
            return dict(res, verdict="inconclusive", why=d)
        if v == "sat":
            bad.append("finish_ok reachable with timed_out=%s errors=%s" % (model.get(tterm), model.get(ev_err.term)))
    for c in fails:
        ev_err = c.env.get(errors_local)
        w.append(q([c.guard])[0])
        # failure only when there is a reason
        v, model, d = q([c.guard, engine.NOT(tterm), "(= %s %s)" % (ev_err.term, engine.bv(0, ev_err.sort))])
        if v == "sat":
            bad.append("finish_failure reachable with no error and no timeout")
    res["witness"] = "finish_ok / finish_failure reachable: %s" % w
    res["witness_ok"] = all(x == "sat" for x in w)
    g_ok = engine.OR(*[c.guard for c in oks])
    g_fail = engine.OR(*[c.guard for c in fails])
    v, _, d = q([rets[0].guard, engine.NOT(engine.AND(engine.OR(g_ok, g_fail), engine.NOT(engine.AND(g_ok, g_fail))))])
    if v != "unsat":
        bad.append("a returning path answers the client zero or two times (%s)" % v)
    if bad:
        return dict(res, verdict="counterexample", text="; ".join(bad), model={"problems": bad},
                    queries=q.n, solver_s=q.secs, replay=replay("verdict"))
    return dict(res, verdict="holds", queries=q.n, solver_s=round(q.secs, 2))


def gatherer_accounting(ob, tier):
    """DefaultGatherer::on_message: each message advances at most one terminal counter, by
    one, and is archived exactly once"""
    fn = mirrun.get_fn("bin", "::on_message", sig="&mut DefaultGatherer")
    ex = engine.Executor(fn, loop_bound=lambda f, h: 2)
    ev = ex.run()
    q = Q(ex.ctx)
    res = {"paths": ex.stats["nodes"], "functions": [fn.name]}
    slf = "(*%s)" % fn.debug.get("self", "_1")
    writes = [e for e in ev if e.kind == "write" and e.place.startswith(slf)]
    rets = [e for e in ev if e.kind == "return"]
    pushes = [e for e in ev if e.kind == "call" and re.search(r"Vec::<.*>::push$", e.callee)]
    asserts = [e for e in ev if e.kind == "assert"]
    if len(rets) != 1 or not writes:
        return dict(res, verdict="inconclusive", why="writes=%d returns=%d" % (len(writes), len(rets)))
    by_field = {}
    for w in writes:
        by_field.setdefault(w.place, []).append(w)
    bad = []
    fields = sorted(by_field)
    res["witness"] = "counter fields written: %s; push events: %d" % (fields, len(pushes))
    # at most one counter write per path
    gs = [engine.OR(*[w.guard for w in by_field[f]]) for f in fields]
    for i in range(len(gs)):
        for j in range(i + 1, len(gs)):
            v, _, d = q([gs[i], gs[j]])
            if v != "unsat":
                bad.append("one message can advance both %s and %s (%s)" % (fields[i], fields[j], v))
    # each write is old + 1
    for f in fields:
        init = ex.initial.get(f)
        for w in by_field[f]:
            if init is None or w.value is None:
                bad.append("write to %s is not an increment of its old value" % f)
                continue
            v, _, d = q([w.guard, engine.NOT("(= %s (bvadd %s %s))" % (w.value, init.term, engine.bv(1, init.sort)))])
            if v != "unsat":
                bad.append("%s is not advanced by exactly one (%s)" % (f, v))
    # archived exactly once on every returning path
    gp = [p.guard for p in pushes]
    v, _, d = q([rets[0].guard, engine.NOT(engine.OR(*gp))]) if gp else ("sat", {}, "")
    if v != "unsat":
        bad.append("a message can be processed without being archived (%s)" % v)
    w1 = [q([g])[0] for g in gs]
    res["witness_ok"] = all(x == "sat" for x in w1) and len(fields) == 2
    # has_finished is exactly ok + errors >= expected_responses (terminal answers only:
    # Processing notices, which are archived too, must not count)
    src = open(mirrun.REPO + "/bin/src/command/server.rs").read()
    m = re.search(r"pub struct DefaultGatherer \{(.*?)\n\}", src, re.S)
    names = re.findall(r"^\s*pub (\w+):", m.group(1), re.M)
    hf = mirrun.get_fn("bin", "::has_finished", sig="&DefaultGatherer")
    ex2 = engine.Executor(hf)
    ev2 = ex2.run()
    q2 = Q(ex2.ctx)
    r2 = [e for e in ev2 if e.kind == "return"]
    reads = {names[int(re.search(r"\.(\d+)$", k).group(1))]: v for k, v in ex2.initial.items() if re.match(r"^\(\*_1\)\.\d+$", k)}
    if len(r2) != 1 or not {"ok", "errors", "expected_responses"} <= set(reads):
        bad.append("has_finished does not compare ok + errors with expected_responses (reads %s)" % sorted(reads))
    else:
        want = "(bvuge (bvadd %s %s) %s)" % (reads["ok"].term, reads["errors"].term, reads["expected_responses"].term)
        ovf = [e.guard for e in ev2 if e.kind == "assert"]
        v, _, d = q2([r2[0].guard, engine.NOT("(= %s %s)" % (r2[0].env["_0"].term, want))])
        if v != "unsat":
            bad.append("has_finished is not `ok + errors >= expected_responses` (%s)" % v)
        if set(reads) - {"ok", "errors", "expected_responses"}:
            bad.append("has_finished also depends on %s" % sorted(set(reads) - {"ok", "errors", "expected_responses"}))
    q.n += q2.n
    q.secs += q2.secs
    res["functions"].append(hf.name)
    if bad:
        return dict(res, verdict="counterexample", text="; ".join(bad), model={"problems": bad},
                    queries=q.n, solver_s=q.secs, replay={"reproduced": False, "why": "no native replay for this obligation"})
    return dict(res, verdict="holds", queries=q.n, solver_s=round(q.secs, 2))


def run(ob, tier):
    return {"flag": flag_propagates, "verdict": verdict_function, "gatherer": gatherer_accounting}[ob["which"]](ob, tier)


# ---------------------------------------------------------------- dispatch bookkeeping
_run_c09 = run


def scatter(ob, tier):
    """Server::scatter_on: every worker the liveness filter selects is sent the request,
    counted in the task's expected responses and registered in `in_flight`, whatever the send
    reports — a worker that was alive at dispatch but not counted lets the others' OKs finish
    the task and the client is told OK although that worker never acknowledged."""
    fn = mirrun.get_fn("bin", "::scatter_on")
    ex = engine.Executor(fn, loop_bound=lambda f, h: 1, max_nodes=200000)
    ev = ex.run()
    for i, e in enumerate(ev):
        e.seq = i
    q = Q(ex.ctx)
    res = {"paths": ex.stats["nodes"], "functions": [fn.name]}
    it0 = [e for e in ev if e.node[1] and all(i == 0 for _, i in e.node[1])]
    nxt = [e for e in it0 if e.kind == "call" and re.search(r"as Iterator>::next$", e.callee)]
    send = [e for e in it0 if e.kind == "call" and e.callee.endswith("WorkerSession::send")]
    reg = [e for e in it0 if e.kind == "call" and re.search(r"HashMap::<(std::string::)?String, usize>::insert$", e.callee)]
    cnt = [e for e in it0 if e.kind == "assert" and "+" in e.msg]
    inc = [e for e in ev if e.kind == "call" and e.callee.endswith("::inc_expected_responses")]
    if len(nxt) != 1 or len(send) != 1 or not inc:
        return dict(res, verdict="inconclusive", why="shape: worker iterator calls=%d send calls=%d inc_expected_responses=%d" % (len(nxt), len(send), len(inc)))
    d = nxt[0].result_discr or ex.initial.get("discr(%s)" % nxt[0].dest)
    picked = engine.AND(nxt[0].guard, "(= %s %s)" % (d.term, engine.bv(1, 64)))
    # reaching the next pass (or the end of the loop) means the body completed for this worker
    done = [ex.node_guard.get((nxt[0].node[0], ((nxt[0].node[1][-1][0], 1),)))]
    done = [g for g in done if g]
    body_done = engine.AND(picked, engine.OR(*done)) if done else picked
    problems = []
    if q([body_done, engine.NOT(send[0].guard)])[0] != "unsat":
        problems.append("a selected worker can be skipped without being sent the request")
    if not reg or q([body_done, engine.NOT(engine.OR(*[r.guard for r in reg]))])[0] != "unsat":
        problems.append("a selected worker's request can go unregistered in in_flight (its answer would be unroutable, and it is not waited for)")
    if not cnt or q([body_done] + [engine.NOT(engine.NOT(c.guard)) for c in []] + [engine.NOT(engine.OR(*[ex.node_guard.get(c.node, "false") for c in cnt]))])[0] != "unsat":
        problems.append("a selected worker can be left out of the expected-response count: the other workers' answers then finish the task and the verdict is OK without its acknowledgement")
    wit = [q([body_done])[0]]
    res["witness"] = "a worker pass completes: %s; sends=%d registrations=%d counter increments=%d" % (wit, len(send), len(reg), len(cnt))
    res["witness_ok"] = all(w == "sat" for w in wit)
    res["queries"], res["solver_s"] = q.n, round(q.secs, 2)
    if problems:
        return dict(res, verdict="counterexample", text="; ".join(problems), model={"problems": problems}, replay={"reproduced": False, "why": "no native replay"})
    return dict(res, verdict="holds")


def upgrade_ids(ob, tier):
    """CommandHub::from_upgrade_data: the id counters of the old main process are carried into
    the new one.  Worker channels survive the re-exec and answers are routed purely by the id
    string `{verb}-{worker}-{task}-{index}`: restarting task ids at 0 lets a slow worker's late
    answer to the old main's request satisfy a new client's request of the same verb."""
    fn = mirrun.get_fn("bin", "::from_upgrade_data")
    ex = engine.Executor(fn, loop_bound=lambda f, h: 1, max_nodes=200000)
    ev = ex.run()
    q = Q(ex.ctx)
    res = {"paths": ex.stats["nodes"], "functions": [fn.name]}

    def fields(path, struct):
        src = open(mirrun.REPO + path).read()
        m = re.search(r"pub struct %s \{(.*?)\n\}" % struct, src, re.S)
        return re.findall(r"^\s*(?:pub(?:\([\w:]+\))? )?(\w+):", re.sub(r"//.*", "", m.group(1)), re.M)
    up = fields("/bin/src/command/upgrade.rs", "UpgradeData")
    sv = fields("/bin/src/command/server.rs", "Server")
    server = fn.debug.get("server")
    rets = [e for e in ev if e.kind == "return"]
    d0 = rets[0].env.get("discr(_0)") if len(rets) == 1 else None
    if server is None or d0 is None:
        return dict(res, verdict="inconclusive", why="shape: server local=%s" % server)
    ok = engine.AND(rets[0].guard, "(= %s %s)" % (d0.term, engine.bv(0, 64)))
    problems, wit = [], []
    for name in ("next_client_id", "next_session_id", "next_task_id", "next_worker_id"):
        if name not in up or name not in sv:
            continue
        # locals bound to upgrade_data.<name>
        srcs = set()
        for b in fn.blocks.values():
            for st in b["stmts"]:
                m = re.match(r"^(_\d+) = (?:copy|move) \(_1\.%d: " % up.index(name), st)
                if m:
                    srcs.add(m.group(1))
        sites = []
        for bb, b in fn.blocks.items():
            for st in b["stmts"]:
                m = re.match(r"^\(%s\.%d: [^)]*\) = (?:copy|move) (_\d+)$" % (re.escape(server), sv.index(name)), st)
                if m and m.group(1) in srcs:
                    g = ex.node_guard.get((bb, ()))
                    if g:
                        sites.append(g)
        if not sites or q([ok, engine.NOT(engine.OR(*sites))])[0] != "unsat":
            problems.append("the new main process does not take over `%s` from the upgrade data (ids restart: a late answer addressed to the old main can match a new request)" % name)
        wit.append(len(sites))
    wq = q([ok])[0]
    res["witness"] = "Ok return reachable: %s; restore sites per counter: %s" % (wq, wit)
    res["witness_ok"] = wq == "sat" and len(wit) == 4
    res["queries"], res["solver_s"] = q.n, round(q.secs, 2)
    if problems:
        return dict(res, verdict="counterexample", text="; ".join(problems), model={"problems": problems}, replay={"reproduced": False, "why": "no native replay"})
    return dict(res, verdict="holds")


def run(ob, tier):
    if ob["which"] == "scatter":
        return scatter(ob, tier)
    if ob["which"] == "upgrade_ids":
        return upgrade_ids(ob, tier)
    return _run_c09(ob, tier)


_run_c09b = run


def finish_once(ob, tier):
    """every GatheringTask::on_finish in bin/src/command: on each path at most one *final*
    answer (finish_ok / finish_ok_with_content / finish_failure) is sent to the client — a
    client of the command socket receives exactly one final answer per request"""
    path = mirrun.dump("bin")
    idx = mirrun._index["bin"]
    from .. import parse
    fns = []
    for n in sorted(idx):
        if n.endswith("::on_finish"):
            for (s0, e0, head) in idx[n]:
                if "OptionalClient" in head or "Option<&mut" in head:
                    fns.append(parse.load_function(path, s0, e0))
    if len(fns) < 5:
        return {"verdict": "inconclusive", "why": "only %d on_finish implementations found in the MIR" % len(fns)}
    problems, nodes, tq, ts, sites = [], 0, 0, 0.0, 0
    names = []
    for fn in fns:
        ex = engine.Executor(fn, loop_bound=lambda f, h: 1, max_nodes=200000)
        try:
            ev = ex.run()
        except engine.Unsupported as e:
            problems.append("shape: %s not executable (%s)" % (fn.name.split("::")[-2][:40], str(e)[:60]))
            continue
        q = Q(ex.ctx)
        nodes += ex.stats["nodes"]
        names.append(fn.name)
        finals = [e for e in ev if e.kind == "call" and re.search(r"MessageClient>::finish_(ok|ok_with_content|failure)(::<.*>)?$", e.callee)]
        sites += len(finals)
        bad = False
        for i in range(len(finals)):
            for j in range(i + 1, len(finals)):
                if not bad and q([finals[i].guard, finals[j].guard])[0] != "unsat":
                    m = re.search(r"requests\.rs:(\d+):", fn.name)
                    problems.append("on_finish (impl at requests.rs:%s) can send two final answers to the client on one path (%s then %s)" % (
                        m.group(1) if m else "?", finals[i].callee.split("::")[-1].split("<")[0] if "::<" not in finals[i].callee.split("MessageClient>::")[-1] else finals[i].callee.split("MessageClient>::")[-1].split("::<")[0],
                        finals[j].callee.split("MessageClient>::")[-1].split("::<")[0]))
                    bad = True
        tq += q.n
        ts += q.secs
    res = {"paths": nodes, "functions": names[:12], "witness": "%d on_finish implementations, %d final-answer sites" % (len(names), sites),
           "witness_ok": len(names) >= 5 and sites >= 5, "queries": tq, "solver_s": round(ts, 2)}
    if problems:
        r = mirrun.native_test("c09_stop_answers", "", features=("bin",), rustflags="--cfg sozu_verif")
        rp = {"reproduced": r["ran"] and r["failed"], "path": os.path.join(mirrun.VERIF, "replay/tests/c09_stop_answers.rs"), "log": r["log"]}
        return dict(res, verdict="counterexample", text="; ".join(problems), model={"problems": problems}, replay=rp)
    return dict(res, verdict="holds")


def run(ob, tier):
    if ob["which"] == "finish_once":
        return finish_once(ob, tier)
    return _run_c09b(ob, tier)
