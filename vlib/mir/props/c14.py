"""C14 — peer WINDOW_UPDATE handling: send windows grow by exactly the increment, never past
2^31-1 (overflow is a FLOW_CONTROL_ERROR, not a wrapped value), and a window that re-opens
re-arms the writer.  ConnectionH2::handle_window_update_frame from MIR (generic in the socket
type; HashMap lookups, reset/goaway and flood checks are uninterpreted calls)."""
import re

from .. import engine, solve
from ... import mirrun


class Q:
    def __init__(self, ctx):
        self.ctx, self.n, self.secs = ctx, 0, 0.0

    def __call__(self, asserts, get=()):
        v, model, s, detail = solve.check(self.ctx.script(asserts, get))
        self.n += 1
        self.secs += s
        return v, model, detail


def struct_fields(path, struct):
    src = open(mirrun.REPO + path).read()
    m = re.search(r"pub struct %s(?:<[^{]*>)? \{(.*?)\n\}" % struct, src, re.S)
    return re.findall(r"^\s*(?:pub(?:\([\w:]+\))? )?(\w+):", re.sub(r"//.*", "", m.group(1)), re.M)


def satsub32(a, b):
    d = "(bvsub %s %s)" % (a, b)
    ovf = "(and (not (= ((_ extract 31 31) %s) ((_ extract 31 31) %s))) (not (= ((_ extract 31 31) %s) ((_ extract 31 31) %s))))" % (a, b, d, a)
    sat = "(ite (bvslt %s %s) %s %s)" % (a, engine.bv(0, 32), engine.bv(1 << 31, 32), engine.bv((1 << 31) - 1, 32))
    return "(ite %s %s %s)" % (ovf, sat, d)


def debit(ob, tier):
    """ConnectionH2::write_streams: what a stream sent in this pass is debited from the stream
    window AND from the connection window inside the per-stream loop, by the same amount, so
    the next stream of the same pass is budgeted against the up-to-date connection window"""
    fn = mirrun.get_fn("lib", "::write_streams")
    ex = engine.Executor(fn, loop_bound=lambda f, h: 1, max_nodes=200000)
    ev = ex.run()
    for i, e in enumerate(ev):
        e.seq = i
    q = Q(ex.ctx)
    res = {"paths": ex.stats["nodes"], "functions": [fn.name]}
    conn = "(*_1).%d.%d" % (struct_fields("/lib/src/protocol/mux/h2.rs", "ConnectionH2").index("flow_control"),
                            struct_fields("/lib/src/protocol/mux/h2.rs", "H2FlowControl").index("window"))
    prep = [e for e in ev if e.kind == "call" and re.search(r"Kawa::<.*>::prepare::<.*H2BlockConverter", e.callee) and e.node[1] and all(i == 0 for _, i in e.node[1])]
    if len(prep) != 1:
        return dict(res, verdict="inconclusive", why="shape: converter runs in the first loop pass=%d" % len(prep))
    ctx0 = prep[0].node[1]
    subs = [e for e in ev if e.kind == "call" and e.node[1] == ctx0 and e.callee.endswith("<impl i32>::saturating_sub") and e.seq > prep[0].seq]
    w32 = [e for e in ev if e.kind == "write" and e.node[1] == ctx0 and getattr(e, "sort", None) == 32 and e.seq > prep[0].seq and e.value]
    problems = []
    stream_w = [w for w in w32 if w.place != conn]
    conn_w = [w for w in w32 if w.place == conn]
    if not subs or not stream_w:
        return dict(res, verdict="inconclusive", why="shape: i32 debits after the converter run=%d stream window stores=%d" % (len(subs), len(stream_w)))
    c = subs[0].args[1]["val"].term   # `consumed`
    sw = stream_w[0]
    if q([sw.guard, engine.NOT("(= %s %s)" % (sw.value, satsub32(subs[0].args[0]["val"].term, c)))])[0] != "unsat":
        problems.append("the stream send window is not debited by what the converter consumed")
    if not conn_w:
        problems.append("the connection send window is not debited inside the per-stream loop: the next stream of the same pass is budgeted against the stale connection window (N streams can send N times the peer's window)")
    for w in conn_w:
        olds = [x.args[0]["val"].term for x in subs[1:]] + ([w.prev] if w.prev else [])
        if not any(q([w.guard, engine.NOT("(= %s %s)" % (w.value, satsub32(o, c)))])[0] == "unsat" for o in olds):
            problems.append("the connection send window is not debited by the same amount as the stream window")
    if conn_w and (q([sw.guard, engine.NOT(engine.OR(*[w.guard for w in conn_w]))])[0] != "unsat"):
        problems.append("a pass can debit the stream window without debiting the connection window")
    wit = [q([sw.guard])[0]]
    res["witness"] = "debit site reachable: %s; %d connection-window stores in the loop" % (wit, len(conn_w))
    res["witness_ok"] = all(x == "sat" for x in wit)
    res["queries"], res["solver_s"] = q.n, round(q.secs, 2)
    if problems:
        return dict(res, verdict="counterexample", text="; ".join(problems), model={"problems": problems}, replay={"reproduced": False, "why": "no native replay"})
    return dict(res, verdict="holds")


def credits(ob, tier):
    """flush_pending_control_frames: a queued WINDOW_UPDATE credit leaves the map only once its
    frame was serialised (or it was a zero increment): the map is only mutated through
    HashMap::remove, fed from the list of written ids; a bulk drain / clear would lose the
    entries behind an early exit (buffer full) and those receive windows are never re-opened"""
    fn = mirrun.get_fn("lib", "::flush_pending_control_frames")
    ex = engine.Executor(fn, loop_bound=lambda f, h: 1, max_nodes=200000)
    ev = ex.run()
    for i, e in enumerate(ev):
        e.seq = i
    q = Q(ex.ctx)
    res = {"paths": ex.stats["nodes"], "functions": [fn.name]}
    place = "(*_1).%d.%d" % (struct_fields("/lib/src/protocol/mux/h2.rs", "ConnectionH2").index("flow_control"),
                             struct_fields("/lib/src/protocol/mux/h2.rs", "H2FlowControl").index("pending_window_updates"))
    mut = [e for e in ev if e.kind == "call" and any(a["val"].ref == place and a["val"].mut for a in e.args)]
    gen = [e for e in ev if e.kind == "call" and re.search(r"(^|::)gen_window_update$", e.callee)]
    gone = [e for e in ev if e.kind == "call" and e.callee.endswith("::frontend_hung_up_while_draining") and e.result is not None]
    peer_gone = engine.OR(*[engine.AND(g.guard, g.result.term) for g in gone]) if gone else "false"
    push = [e for e in ev if e.kind == "call" and re.search(r"Vec::<u32>::push$", e.callee)]
    if not gen:
        return dict(res, verdict="inconclusive", why="gen_window_update call not found")
    problems = []
    removes = []
    for c in mut:
        name = re.sub(r"::<.*?>(?=::|$)", "", c.callee).split("::")[-1]
        if name == "remove":
            removes.append(c)
        elif q([c.guard, engine.NOT(peer_gone)])[0] != "unsat":
            # (dropping everything is fine once the peer has hung up: nobody is left to credit)
            problems.append("pending WINDOW_UPDATE credits are taken out of the map through HashMap::%s: entries not yet serialised are lost when the loop exits early" % name)
    if not removes and not problems:
        problems.append("written credits are never removed from the map (they would be sent again)")
    # ids are recorded as written only after a successful serialisation or for a zero increment
    oks = []
    for g in gen:
        reads = [e for e in ev if e.kind == "discr_read" and e.place == g.dest]
        for r in reads:
            oks.append(engine.AND(r.guard, "(= %s %s)" % (r.term, engine.bv(0, 64))))
    zero = [e for e in ev if e.kind == "call" and False]
    for p in push:
        later_ok = engine.OR(*oks) if oks else "false"
        v = q([p.guard, engine.NOT(later_ok)])[0]
        if v != "unsat":
            # the only other legitimate source is the `increment == 0` skip, which never calls gen
            if q([p.guard, engine.OR(*[g.guard for g in gen if g.node[1] == p.node[1]])])[0] != "unsat" and v != "unsat":
                problems.append("a stream id is recorded as written although its WINDOW_UPDATE frame was not serialised")
    wit = [q([engine.OR(*[g.guard for g in gen])])[0]]
    res["witness"] = "serialisation reachable: %s; %d map mutations (%d removes), %d written-id pushes" % (wit, len(mut), len(removes), len(push))
    res["witness_ok"] = all(x == "sat" for x in wit)
    res["queries"], res["solver_s"] = q.n, round(q.secs, 2)
    if problems:
        return dict(res, verdict="counterexample", text="; ".join(sorted(set(problems))), model={"problems": problems}, replay={"reproduced": False, "why": "no native replay"})
    return dict(res, verdict="holds")


def run(ob, tier):
    if ob.get("which") == "debit":
        return debit(ob, tier)
    if ob.get("which") == "credits":
        return credits(ob, tier)
    fn = mirrun.get_fn("lib", "::handle_window_update_frame")
    ex = engine.Executor(fn, loop_bound=lambda f, h: 2, max_nodes=200000)
    ev = ex.run()
    q = Q(ex.ctx)
    res = {"paths": ex.stats["nodes"], "functions": [fn.name]}
    adds = [e for e in ev if e.kind == "call" and re.search(r"<impl i32>::checked_add$", e.callee)]
    arms = [e for e in ev if e.kind == "call" and e.callee.endswith("Readiness::arm_writable")]
    errs = [e for e in ev if e.kind == "call" and re.search(r"::(goaway|reset_stream)(::<.*>)?$", e.callee)]
    writes = [e for e in ev if e.kind == "write" and getattr(e, "sort", None) == 32]
    if len(adds) != 2 or len(arms) != 2:
        return dict(res, verdict="inconclusive", why="shape: checked_add=%d arm_writable=%d" % (len(adds), len(arms)))
    problems, wit = [], []
    maxw = engine.bv((1 << 31) - 1, 32)
    zero = engine.bv(0, 32)
    for c in adds:
        old, inc = c.args[0]["val"].term, c.args[1]["val"].term
        pay = c.env  # not used
        new = "(bvadd %s %s)" % (old, inc)
        # signed overflow of old + inc
        ovf = "(and (= ((_ extract 31 31) %s) ((_ extract 31 31) %s)) (not (= ((_ extract 31 31) %s) ((_ extract 31 31) %s))))" % (old, inc, new, old)
        # the increment is a legal one here: 1 ..= 2^31-1 (zero was answered earlier)
        v, _, d = q([c.guard, engine.NOT(engine.AND("(bvsgt %s %s)" % (inc, zero)))])
        if v != "unsat":
            problems.append("a zero or negative increment reaches the window arithmetic (%s)" % v)
        mine = [w for w in writes if q([w.guard, c.guard, engine.NOT("(= %s %s)" % (w.value, new))])[0] == "unsat" and q([w.guard, c.guard])[0] == "sat"]
        if len(mine) != 1:
            problems.append("no single window store fed by this checked_add (%d)" % len(mine))
            continue
        w = mine[0]
        for name, a in (
            ("the window is stored although old + increment overflows i32 (wrapped window)", [w.guard, ovf]),
            ("the stored window exceeds 2^31-1 or is not old + increment", [w.guard, engine.NOT(engine.AND("(= %s %s)" % (w.value, new), "(bvsle %s %s)" % (w.value, maxw)))]),
            ("a non-overflowing WINDOW_UPDATE is not applied", [c.guard, engine.NOT(ovf), engine.NOT(w.guard), ]),
        ):
            v, _, d = q(a)
            if v == "inconclusive":
                return dict(res, verdict="inconclusive", why=d)
            if v != "unsat":
                problems.append("%s (%s)" % (name, v))
        # overflow is answered with an error event (GOAWAY for the connection, RST for a stream)
        v, _, d = q([c.guard, ovf] + [engine.NOT(e.guard) for e in errs])
        if v != "unsat":
            problems.append("an overflowing WINDOW_UPDATE is not answered with goaway/reset_stream (%s)" % v)
        # wake-up: a window going from <= 0 to > 0 arms the writer, and only then
        reopen = engine.AND("(bvsle %s %s)" % (old, zero), "(bvsgt %s %s)" % (new, zero))
        my_arm = [a for a in arms if q([a.guard, c.guard])[0] == "sat"]
        if len(my_arm) != 1:
            problems.append("no single arm_writable on this branch (%d)" % len(my_arm))
            continue
        v, _, d = q([w.guard, reopen, engine.NOT(my_arm[0].guard)])
        if v != "unsat":
            problems.append("a window re-opening from <= 0 does not arm the writer: the transfer would stall (%s)" % v)
        v, _, d = q([my_arm[0].guard, engine.NOT(engine.AND(c.guard, reopen, engine.NOT(ovf)))])
        if v != "unsat":
            problems.append("the writer is armed although the window did not re-open (%s)" % v)
        wit += [q([w.guard])[0], q([my_arm[0].guard])[0], q([c.guard, ovf])[0]]
    res["witness"] = "window store / arm_writable / overflow branch reachable for connection and stream level: %s" % wit
    res["witness_ok"] = len(wit) == 6 and all(x == "sat" for x in wit)
    if problems:
        return dict(res, verdict="counterexample", text="; ".join(problems), model={"problems": problems}, queries=q.n, solver_s=q.secs, replay={"reproduced": False, "why": "no native replay"})
    return dict(res, verdict="holds", queries=q.n, solver_s=round(q.secs, 2))
