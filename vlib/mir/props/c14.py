"""C14 — peer WINDOW_UPDATE handling: send windows grow by exactly the increment, never past
2^31-1 (overflow is a FLOW_CONTROL_ERROR, not a wrapped value), and a window that re-opens
re-arms the writer.  ConnectionH2::handle_window_update_frame from MIR (generic in the socket
type; HashMap lookups, reset/goaway and flood checks are uninterpreted calls)."""
import re

from .. import engine, solve
from ... import mirrun


class Q:
    def __init__(self, ctx):
        self.ctx, self.n, self.secs = ctx, 0, 0.0

    def __call__(self, asserts, get=()):
        v, model, s, detail = solve.check(self.ctx.script(asserts, get))
        self.n += 1
        self.secs += s
        return v, model, detail


def run(ob, tier):
    fn = mirrun.get_fn("lib", "::handle_window_update_frame")
    ex = engine.Executor(fn, loop_bound=lambda f, h: 2, max_nodes=200000)
    ev = ex.run()
    q = Q(ex.ctx)
    res = {"paths": ex.stats["nodes"], "functions": [fn.name]}
    adds = [e for e in ev if e.kind == "call" and re.search(r"<impl i32>::checked_add$", e.callee)]
    arms = [e for e in ev if e.kind == "call" and e.callee.endswith("Readiness::arm_writable")]
    errs = [e for e in ev if e.kind == "call" and re.search(r"::(goaway|reset_stream)(::<.*>)?$", e.callee)]
    writes = [e for e in ev if e.kind == "write" and getattr(e, "sort", None) == 32]
    if len(adds) != 2 or len(arms) != 2:
        return dict(res, verdict="inconclusive", why="shape: checked_add=%d arm_writable=%d" % (len(adds), len(arms)))
    problems, wit = [], []
    maxw = engine.bv((1 << 31) - 1, 32)
    zero = engine.bv(0, 32)
    for c in adds:
        old, inc = c.args[0]["val"].term, c.args[1]["val"].term
        pay = c.env  # not used
        new = "(bvadd %s %s)" % (old, inc)
        # signed overflow of old + inc
        ovf = "(and (= ((_ extract 31 31) %s) ((_ extract 31 31) %s)) (not (= ((_ extract 31 31) %s) ((_ extract 31 31) %s))))" % (old, inc, new, old)
        # the increment is a legal one here: 1 ..= 2^31-1 (zero was answered earlier)
        v, _, d = q([c.guard, engine.NOT(engine.AND("(bvsgt %s %s)" % (inc, zero)))])
        if v != "unsat":
            problems.append("a zero or negative increment reaches the window arithmetic (%s)" % v)
        mine = [w for w in writes if q([w.guard, c.guard, engine.NOT("(= %s %s)" % (w.value, new))])[0] == "unsat" and q([w.guard, c.guard])[0] == "sat"]
        if len(mine) != 1:
            problems.append("no single window store fed by this checked_add (%d)" % len(mine))
            continue
        w = mine[0]
        for name, a in (
            ("the window is stored although old + increment overflows i32 (wrapped window)", [w.guard, ovf]),
            ("the stored window exceeds 2^31-1 or is not old + increment", [w.guard, engine.NOT(engine.AND("(= %s %s)" % (w.value, new), "(bvsle %s %s)" % (w.value, maxw)))]),
            ("a non-overflowing WINDOW_UPDATE is not applied", [c.guard, engine.NOT(ovf), engine.NOT(w.guard), ]),
        ):
            v, _, d = q(a)
            if v == "inconclusive":
                return dict(res, verdict="inconclusive", why=d)
            if v != "unsat":
                problems.append("%s (%s)" % (name, v))
        # overflow is answered with an error event (GOAWAY for the connection, RST for a stream)
        v, _, d = q([c.guard, ovf] + [engine.NOT(e.guard) for e in errs])
        if v != "unsat":
            problems.append("an overflowing WINDOW_UPDATE is not answered with goaway/reset_stream (%s)" % v)
        # wake-up: a window going from <= 0 to > 0 arms the writer, and only then
        reopen = engine.AND("(bvsle %s %s)" % (old, zero), "(bvsgt %s %s)" % (new, zero))
        my_arm = [a for a in arms if q([a.guard, c.guard])[0] == "sat"]
        if len(my_arm) != 1:
            problems.append("no single arm_writable on this branch (%d)" % len(my_arm))
            continue
        v, _, d = q([w.guard, reopen, engine.NOT(my_arm[0].guard)])
        if v != "unsat":
            problems.append("a window re-opening from <= 0 does not arm the writer: the transfer would stall (%s)" % v)
        v, _, d = q([my_arm[0].guard, engine.NOT(engine.AND(c.guard, reopen, engine.NOT(ovf)))])
        if v != "unsat":
            problems.append("the writer is armed although the window did not re-open (%s)" % v)
        wit += [q([w.guard])[0], q([my_arm[0].guard])[0], q([c.guard, ovf])[0]]
    res["witness"] = "window store / arm_writable / overflow branch reachable for connection and stream level: %s" % wit
    res["witness_ok"] = len(wit) == 6 and all(x == "sat" for x in wit)
    if problems:
        return dict(res, verdict="counterexample", text="; ".join(problems), model={"problems": problems}, queries=q.n, solver_s=q.secs, replay={"reproduced": False, "why": "no native replay"})
    return dict(res, verdict="holds", queries=q.n, solver_s=round(q.secs, 2))
