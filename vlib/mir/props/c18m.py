"""C18 — Pipe (TCP relay / upgraded connections): what a would-block does to the readiness
words (engine M).  With edge-triggered epoll the *event* bit of the direction that
would-blocked has to be cleared (so the next edge re-triggers the handler) and the *interest*
bit has to stay while bytes are pending; dropping the interest instead stalls the relay with
undelivered bytes.  Decided for the four relay handlers of Pipe over their real MIR, with the
Ready bit algebra modelled exactly (same models as C01's event-loop obligation) and socket
I/O / buffers uninterpreted."""
import re

from .. import engine
from ... import mirrun
from .c16 import Q
from . import c01

HANDLERS = {  # function -> (side that can would-block, direction bit)
    "readable": ("frontend_readiness", "READABLE"),
    "writable": ("frontend_readiness", "WRITABLE"),
    "backend_readable": ("backend_readiness", "READABLE"),
    "backend_writable": ("backend_readiness", "WRITABLE"),
}


def wouldblock(ob, tier):
    bits = c01.ready_bits()
    src = open(mirrun.REPO + "/lib/src/protocol/pipe.rs").read()
    m = re.search(r"pub struct Pipe<[^{]*\{(.*?)\n\}", src, re.S)
    fields = re.findall(r"^\s*(?:pub(?:\([\w:]+\))? )?(\w+):", re.sub(r"//.*", "", m.group(1)), re.M)
    variants = engine.register_enum(mirrun.REPO + "/lib/src/socket.rs", "SocketResult")
    wb = engine.bv(variants.index("WouldBlock"), 64)
    problems, fnames, nodes, tq, ts, wit = [], [], 0, 0, 0.0, []
    for fname, (side, bit) in HANDLERS.items():
        fn = mirrun.get_fn("lib", "::" + fname, sig="_1: &mut Pipe<Front, L>, _2: &mut SessionMetrics")
        ex = engine.Executor(fn, loop_bound=lambda f, h: 1, max_nodes=200000, models=c01.ready_models(bits))
        ev = ex.run()
        q = Q(ex.ctx)
        fnames.append(fn.name)
        nodes += ex.stats["nodes"]
        rd = "(*_1).%d" % fields.index(side)
        rets = [e for e in ev if e.kind == "return"]
        obs = [e for e in ev if e.kind == "discr_read" and e.ty and e.ty.endswith("SocketResult")]
        if not obs or len(rets) != 1:
            problems.append("%s: shape (socket-result matches=%d returns=%d)" % (fname, len(obs), len(rets)))
            continue
        # a path that saw the socket answer WouldBlock in a `match` and then returns
        blocked = engine.AND(rets[0].guard, engine.OR(*[engine.AND(o.guard, "(= %s %s)" % (o.term, wb)) for o in obs]))
        ev_clear = [e for e in ev if e.kind == "ready_remove" and e.place == rd + ".0" and e.bit == bit]
        int_drop = [e for e in ev if e.kind == "ready_remove" and e.place == rd + ".1" and e.bit == bit]
        if q([blocked] + [engine.NOT(e.guard) for e in ev_clear])[0] != "unsat":
            problems.append("%s: a would-block does not clear the %s event bit of %s (edge-triggered epoll will not re-trigger the handler)" % (fname, bit, side))
        # read side: dropping READABLE interest on a full buffer (back-pressure) and clearing
        # the event on a 0-byte read (EOF) are legitimate, so (b) and (c) are write-side only
        if bit != "WRITABLE":
            int_drop, ev_clear_c = [], []
        else:
            ev_clear_c = ev_clear
        for e in int_drop:
            if q([blocked, e.guard])[0] != "unsat":
                problems.append("%s: a would-block drops the %s *interest* of %s: pending bytes are never flushed" % (fname, bit, side))
        for e in ev_clear_c:
            if q([e.guard, rets[0].guard, engine.NOT(blocked)])[0] != "unsat":
                problems.append("%s: the %s event bit of %s is cleared without a would-block" % (fname, bit, side))
        wit.append(q([blocked])[0])
        tq += q.n
        ts += q.secs
    res = {"paths": nodes, "functions": fnames, "witness": "would-block return reachable in each handler: %s" % wit,
           "witness_ok": len(wit) == 4 and all(w == "sat" for w in wit), "queries": tq, "solver_s": round(ts, 2)}
    if problems:
        return dict(res, verdict="counterexample", text="; ".join(problems), model={"problems": problems}, replay={"reproduced": False, "why": "no native replay"})
    return dict(res, verdict="holds")


def run(ob, tier):
    return {"wouldblock": wouldblock}[ob["which"]](ob, tier)
