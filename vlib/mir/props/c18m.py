"""C18 — Pipe (TCP relay / upgraded connections): what a would-block does to the readiness
words (engine M).  With edge-triggered epoll the *event* bit of the direction that
would-blocked has to be cleared (so the next edge re-triggers the handler) and the *interest*
bit has to stay while bytes are pending; dropping the interest instead stalls the relay with
undelivered bytes.  Decided for the four relay handlers of Pipe over their real MIR, with the
Ready bit algebra modelled exactly (same models as C01's event-loop obligation) and socket
I/O / buffers uninterpreted."""
import re

from .. import engine
from ... import mirrun
from .c16 import Q
from . import c01

HANDLERS = {  # function -> (side that can would-block, direction bit)
    "readable": ("frontend_readiness", "READABLE"),
    "writable": ("frontend_readiness", "WRITABLE"),
    "backend_readable": ("backend_readiness", "READABLE"),
    "backend_writable": ("backend_readiness", "WRITABLE"),
}


def wouldblock(ob, tier):
    bits = c01.ready_bits()
    src = open(mirrun.REPO + "/lib/src/protocol/pipe.rs").read()
    m = re.search(r"pub struct Pipe<[^{]*\{(.*?)\n\}", src, re.S)
    fields = re.findall(r"^\s*(?:pub(?:\([\w:]+\))? )?(\w+):", re.sub(r"//.*", "", m.group(1)), re.M)
    variants = engine.register_enum(mirrun.REPO + "/lib/src/socket.rs", "SocketResult")
    wb = engine.bv(variants.index("WouldBlock"), 64)
    problems, fnames, nodes, tq, ts, wit = [], [], 0, 0, 0.0, []
    for fname, (side, bit) in HANDLERS.items():
        fn = mirrun.get_fn("lib", "::" + fname, sig="_1: &mut Pipe<Front, L>, _2: &mut SessionMetrics")
        ex = engine.Executor(fn, loop_bound=lambda f, h: 1, max_nodes=200000, models=c01.ready_models(bits))
        ev = ex.run()
        q = Q(ex.ctx)
        fnames.append(fn.name)
        nodes += ex.stats["nodes"]
        rd = "(*_1).%d" % fields.index(side)
        rets = [e for e in ev if e.kind == "return"]
        obs = [e for e in ev if e.kind == "discr_read" and e.ty and e.ty.endswith("SocketResult")]
        if not obs or len(rets) != 1:
            problems.append("%s: shape (socket-result matches=%d returns=%d)" % (fname, len(obs), len(rets)))
            continue
        # a path that saw the socket answer WouldBlock in a `match` and then returns
        blocked = engine.AND(rets[0].guard, engine.OR(*[engine.AND(o.guard, "(= %s %s)" % (o.term, wb)) for o in obs]))
        ev_clear = [e for e in ev if e.kind == "ready_remove" and e.place == rd + ".0" and e.bit == bit]
        int_drop = [e for e in ev if e.kind == "ready_remove" and e.place == rd + ".1" and e.bit == bit]
        if q([blocked] + [engine.NOT(e.guard) for e in ev_clear])[0] != "unsat":
            problems.append("%s: a would-block does not clear the %s event bit of %s (edge-triggered epoll will not re-trigger the handler)" % (fname, bit, side))
        # read side: dropping READABLE interest on a full buffer (back-pressure) and clearing
        # the event on a 0-byte read (EOF) are legitimate, so (b) and (c) are write-side only
        if bit != "WRITABLE":
            int_drop, ev_clear_c = [], []
        else:
            ev_clear_c = ev_clear
        for e in int_drop:
            if q([blocked, e.guard])[0] != "unsat":
                problems.append("%s: a would-block drops the %s *interest* of %s: pending bytes are never flushed" % (fname, bit, side))
        for e in ev_clear_c:
            if q([e.guard, rets[0].guard, engine.NOT(blocked)])[0] != "unsat":
                problems.append("%s: the %s event bit of %s is cleared without a would-block" % (fname, bit, side))
        wit.append(q([blocked])[0])
        tq += q.n
        ts += q.secs
    res = {"paths": nodes, "functions": fnames, "witness": "would-block return reachable in each handler: %s" % wit,
           "witness_ok": len(wit) == 4 and all(w == "sat" for w in wit), "queries": tq, "solver_s": round(ts, 2)}
    if problems:
        return dict(res, verdict="counterexample", text="; ".join(problems), model={"problems": problems}, replay={"reproduced": False, "why": "no native replay"})
    return dict(res, verdict="holds")


def inflight(ob, tier):
    """Pipe::check_connections (the "keep the session?" table): while the client side can still
    receive (frontend status Normal / WriteOpen) and response bytes are in flight — held in
    backend_buffer, still readable on the backend socket (readiness event READABLE, i.e. unread
    in the kernel) or in the splice pipe — the session is kept, whatever the backend status,
    in particular after the backend hung up; symmetrically for request bytes while the backend
    can still receive.  Closing earlier hands the peer a clean EOF on a truncated stream."""
    bits = c01.ready_bits()
    src = open(mirrun.REPO + "/lib/src/protocol/pipe.rs").read()
    m = re.search(r"pub struct Pipe<[^{]*\{(.*?)\n\}", src, re.S)
    fields = re.findall(r"^\s*(?:pub(?:\([\w:]+\))? )?(\w+):", re.sub(r"//.*", "", m.group(1)), re.M)
    em = re.search(r"(?:pub )?enum ConnectionStatus \{(.*?)\n\}", src, re.S)
    if em is None:
        return {"verdict": "inconclusive", "why": "ConnectionStatus enum not found in pipe.rs"}
    variants = re.findall(r"^\s*(\w+),", re.sub(r"//.*", "", em.group(1)), re.M)
    fn = mirrun.get_fn("lib", "::check_connections", sig="&Pipe<Front, L>")
    ex = engine.Executor(fn, loop_bound=lambda f, h: 1, models=c01.ready_models(bits))
    ev = ex.run()
    q = Q(ex.ctx)
    res = {"paths": ex.stats["nodes"], "functions": [fn.name]}
    rets = [e for e in ev if e.kind == "return"]
    fs = ex.initial.get("discr((*_1).%d)" % fields.index("frontend_status"))
    bs = ex.initial.get("discr((*_1).%d)" % fields.index("backend_status"))
    if len(rets) != 1 or fs is None or bs is None or rets[0].env.get("_0") is None:
        return dict(res, verdict="inconclusive", why="shape: returns=%d frontend_status read=%s backend_status read=%s" % (len(rets), fs is not None, bs is not None))
    r0 = rets[0].env["_0"].term

    def side(buf, rdy, splice):
        terms = []
        for e in ev:
            if e.kind == "call" and e.callee.endswith("::available_data") and e.args[0]["val"].ref == "(*_1).%d" % fields.index(buf) and e.result is not None:
                terms.append(engine.AND(e.guard, "(bvugt %s %s)" % (e.result.term, engine.bv(0, 64))))
            if e.kind == "call" and e.callee.endswith("::" + splice) and e.result is not None:
                terms.append(engine.AND(e.guard, "(bvugt %s %s)" % (e.result.term, engine.bv(0, 64))))
        w = ex.initial.get("(*_1).%d.0.0" % fields.index(rdy))
        if w is not None:
            terms.append("(= (bvand %s %s) %s)" % (w.term, engine.bv(bits["READABLE"], 16), engine.bv(bits["READABLE"], 16)))
        return terms, w is not None

    def can_receive(d):
        return engine.OR(*["(= %s %s)" % (d.term, engine.bv(variants.index(v), 64)) for v in ("Normal", "WriteOpen")])
    problems = []
    resp, rread = side("backend_buffer", "backend_readiness", "splice_out_pending")
    req, qread = side("frontend_buffer", "frontend_readiness", "splice_in_pending")
    if not rread:
        problems.append("the backend readiness event (bytes still unread on the backend socket) is not part of the in-flight test")
    if not qread:
        problems.append("the frontend readiness event (bytes still unread on the client socket) is not part of the in-flight test")
    for t in resp:
        if q([rets[0].guard, can_receive(fs), t, engine.NOT(r0)])[0] != "unsat":
            problems.append("the session can be closed while the client can still receive and response bytes are in flight (buffered, unread on the backend socket, or in the splice pipe): truncated stream with a clean EOF")
            break
    for t in req:
        if q([rets[0].guard, can_receive(bs), t, engine.NOT(r0)])[0] != "unsat":
            problems.append("the session can be closed while the backend can still receive and request bytes are in flight")
            break
    wit = [q([rets[0].guard, r0])[0], q([rets[0].guard, engine.NOT(r0)])[0]]
    res["witness"] = "keep / close both reachable: %s; %d response-side and %d request-side in-flight terms" % (wit, len(resp), len(req))
    res["witness_ok"] = all(w == "sat" for w in wit) and len(resp) >= 2 and len(req) >= 2
    res["queries"], res["solver_s"] = q.n, round(q.secs, 2)
    if problems:
        return dict(res, verdict="counterexample", text="; ".join(problems), model={"problems": problems}, replay={"reproduced": False, "why": "no native replay"})
    return dict(res, verdict="holds")


def run(ob, tier):
    return {"wouldblock": wouldblock, "inflight": inflight}[ob["which"]](ob, tier)
