"""C06 — discharge of the precondition the Kani obligation on diff_map assumes: at every call
site in ConfigState::diff both inputs are BTreeMap iterations (strictly increasing keys), and
the backend join is keyed on the backend's full identity.

This one is decided by inspection of the call-site types in the regenerated MIR, not by a
solver query (the types *are* the fact); it is listed so that a change which feeds diff_map
from an unsorted source is reported."""
import re

from .. import parse
from ... import mirrun


def run(ob, tier):
    fn = mirrun.get_fn("command", "::diff", sig="&ConfigState, _2: &ConfigState")
    sites = []
    for bb, b in fn.blocks.items():
        t = parse.parse_terminator(b["term"] or "unreachable")
        if t["kind"] == "call" and re.match(r"^(state::)?diff_map::<", t["callee"]):
            sites.append((bb, t["callee"]))
    res = {"paths": len(fn.blocks), "functions": [fn.name], "queries": len(sites), "solver_s": 0.0}
    if len(sites) < 2:
        return dict(res, verdict="inconclusive", why="diff_map call sites found: %d" % len(sites))
    problems = []
    backend_site = False
    for bb, callee in sites:
        args = parse.split_top(callee[callee.index("<") + 1:callee.rindex(">")], ", ")
        # <'_, K, V, I1, I2>
        if len(args) != 5:
            problems.append("unexpected diff_map instantiation at %s" % bb)
            continue
        key, val, i1, i2 = args[1], args[2], args[3], args[4]
        for it in (i1, i2):
            core = it
            m = re.match(r"^std::iter::Map<(.*), \{closure@[^}]*\}>$", it)
            if m:
                core = m.group(1)
            if not core.startswith("std::collections::btree_map::Iter<"):
                problems.append("diff_map input at %s is %s, not a BTreeMap iteration (keys may be unsorted or repeated)" % (bb, core[:70]))
        if "Backend" in val:
            backend_site = True
            if "SocketAddr" not in key:
                problems.append("backends are joined on %s, which is coarser than their identity (backend_id, address)" % key[:80])
    if not backend_site:
        problems.append("no diff_map call for backends found")
    res["witness"] = "%d diff_map call sites inspected" % len(sites)
    res["witness_ok"] = True
    if problems:
        rp = mirrun.native_test("c06_findings", "")
        return dict(res, verdict="counterexample", text="; ".join(problems), model={"problems": problems},
                    replay={"reproduced": rp["ran"] and rp["failed"], "path": mirrun.VERIF + "/replay/tests/c06_findings.rs", "log": rp["log"]})
    return dict(res, verdict="holds")
