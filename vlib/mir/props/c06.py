"""C06 — discharge of the precondition the Kani obligation on diff_map assumes: at every call
site in ConfigState::diff both inputs are BTreeMap iterations (strictly increasing keys), and
the backend join is keyed on the backend's full identity.

This one is decided by inspection of the call-site types in the regenerated MIR, not by a
solver query (the types *are* the fact); it is listed so that a change which feeds diff_map
from an unsorted source is reported."""
import re

from .. import parse
from ... import mirrun


def run(ob, tier):
    fn = mirrun.get_fn("command", "::diff", sig="&ConfigState, _2: &ConfigState")
    sites = []
    for bb, b in fn.blocks.items():
        t = parse.parse_terminator(b["term"] or "unreachable")
        if t["kind"] == "call" and re.match(r"^(state::)?diff_map::<", t["callee"]):
            sites.append((bb, t["callee"]))
    res = {"paths": len(fn.blocks), "functions": [fn.name], "queries": len(sites), "solver_s": 0.0}
    if len(sites) < 2:
        return dict(res, verdict="inconclusive", why="diff_map call sites found: %d" % len(sites))
    problems = []
    backend_site = False
    for bb, callee in sites:
        args = parse.split_top(callee[callee.index("<") + 1:callee.rindex(">")], ", ")
        # <'_, K, V, I1, I2>
        if len(args) != 5:
            problems.append("unexpected diff_map instantiation at %s" % bb)
            continue
        key, val, i1, i2 = args[1], args[2], args[3], args[4]
        for it in (i1, i2):
            core = it
            m = re.match(r"^std::iter::Map<(.*), \{closure@[^}]*\}>$", it)
            if m:
                core = m.group(1)
            if not core.startswith("std::collections::btree_map::Iter<"):
                problems.append("diff_map input at %s is %s, not a BTreeMap iteration (keys may be unsorted or repeated)" % (bb, core[:70]))
        if "Backend" in val:
            backend_site = True
            if "SocketAddr" not in key:
                problems.append("backends are joined on %s, which is coarser than their identity (backend_id, address)" % key[:80])
    if not backend_site:
        problems.append("no diff_map call for backends found")
    res["witness"] = "%d diff_map call sites inspected" % len(sites)
    res["witness_ok"] = True
    if problems:
        rp = mirrun.native_test("c06_findings", "")
        return dict(res, verdict="counterexample", text="; ".join(problems), model={"problems": problems},
                    replay={"reproduced": rp["ran"] and rp["failed"], "path": mirrun.VERIF + "/replay/tests/c06_findings.rs", "log": rp["log"]})
    return dict(res, verdict="holds")


# ---------------------------------------------------------------- emission order / comparison operands
_run_c06 = run


def _exec_diff():
    from .. import engine
    fn = mirrun.get_fn("command", "::diff", sig="&ConfigState, _2: &ConfigState")
    ex = engine.Executor(fn, loop_bound=lambda f, h: 1, max_nodes=200000)
    ev = ex.run()
    for i, e in enumerate(ev):
        e.seq = i
    return fn, ex, ev


def order(ob, tier):
    """ConfigState::diff: for every kind of frontend, the Remove requests of the difference are
    emitted by a loop that runs to completion before the loop emitting the Add requests starts:
    a worker that receives Add(address) while the old frontend of that address is still there
    rejects it, and the following Remove then leaves the address without frontend."""
    from .. import engine
    from .c16 import Q
    fn, ex, ev = _exec_diff()
    q = Q(ex.ctx)
    res = {"paths": ex.stats["nodes"], "functions": [fn.name]}
    ex.analyse_loops()
    pushes = [e for e in ev if e.kind == "call" and re.search(r"Vec::<.*Request>::push$", e.callee) and e.node[1] and all(i == 0 for _, i in e.node[1])]
    # variant built in the blocks of the innermost loop of each push
    site = {}
    for p in pushes:
        hdr = p.node[1][-1][0]
        body = ex.loops.get(hdr, set())
        inner = {b for h, bs in ex.loops.items() if h != hdr and h in body for b in bs}
        vs = set()
        for bb in body - inner:
            for st in fn.blocks[bb]["stmts"]:
                m = re.search(r"RequestType::(\w+)\(", st)
                if m:
                    vs.add(m.group(1))
        site.setdefault(hdr, {"variants": set(), "seq": p.seq, "guards": []})
        site[hdr]["variants"] |= vs
        site[hdr]["seq"] = min(site[hdr]["seq"], p.seq)
        site[hdr]["guards"].append(p.guard)
    problems, wit = [], []
    for kind in ("HttpFrontend", "HttpsFrontend", "TcpFrontend", "UdpFrontend"):
        rem = [h for h, s in site.items() if "Remove" + kind in s["variants"]]
        add = [h for h, s in site.items() if "Add" + kind in s["variants"]]
        if not rem or not add:
            problems.append("shape: Remove%s / Add%s emission loops not found" % (kind, kind))
            continue
        both = set(rem) & set(add)
        if both:
            problems.append("Remove%s and Add%s are emitted by the same loop: an Add can reach a worker before the Remove of the entry it replaces" % (kind, kind))
            continue
        if max(site[h]["seq"] for h in rem) > min(site[h]["seq"] for h in add):
            problems.append("Add%s requests are emitted before Remove%s requests" % (kind, kind))
        wit.append(q([engine.OR(*[g for h in rem + add for g in site[h]["guards"]])])[0])
    res["witness"] = "emission loops reachable per frontend kind: %s; %d emitting loops" % (wit, len(site))
    res["witness_ok"] = len(wit) == 4 and all(w == "sat" for w in wit)
    res["queries"], res["solver_s"] = q.n, round(q.secs, 2)
    if problems:
        return dict(res, verdict="counterexample", text="; ".join(problems), model={"problems": problems}, replay={"reproduced": False, "why": "no native replay"})
    return dict(res, verdict="holds")


def listeners_compared(ob, tier):
    """ConfigState::diff, listeners present in both states: the test that decides whether a
    listener is re-sent compares the two stored listeners themselves (`self.x_listeners[addr]`
    with `other.x_listeners[addr]`), activation state included — a listener that differs in
    anything must come out of the diff; comparing a normalised copy makes a difference vanish."""
    from .. import engine
    from .c16 import Q
    fn, ex, ev = _exec_diff()
    q = Q(ex.ctx)
    res = {"paths": ex.stats["nodes"], "functions": [fn.name]}
    problems, wit = [], []
    for kind in ("HttpListenerConfig", "HttpsListenerConfig", "TcpListenerConfig", "UdpListenerConfig"):
        cmps = [e for e in ev if e.kind == "call" and re.search(r"<&?(?:[\w:]*::)?%s as PartialEq>::(eq|ne)$" % kind, e.callee) and e.node[1] and all(i == 0 for _, i in e.node[1])]
        idx = {}
        for e in ev:
            if e.kind == "call" and re.search(r"as (std::ops::)?Index<&.*SocketAddr>>::index$", e.callee) and kind in e.callee:
                side = "self" if (e.args[0]["val"].ref or "").startswith("(*_1)") else "other" if (e.args[0]["val"].ref or "").startswith("(*_2)") else "?"
                idx[e.dest] = side
        for _ in range(3):   # plain copies of an indexed reference
            for b in fn.blocks.values():
                for st in b["stmts"]:
                    m = re.match(r"^(_\d+) = (?:copy|move) (_\d+)$", st)
                    if m and m.group(2) in idx:
                        idx.setdefault(m.group(1), idx[m.group(2)])
        if not cmps:
            problems.append("shape: no %s comparison in diff" % kind)
            continue
        for c in cmps:
            ops = [a["text"].split()[-1] for a in c.args]
            sides = [idx.get(o) or idx.get((a["val"].ref or "").strip("(*)")) for o, a in zip(ops, c.args)]
            direct = len(c.args) == 2 and sorted(x or "-" for x in sides) == ["other", "self"]
            if not direct:
                problems.append("%s listeners of an address present in both states are not compared as stored (a normalised / copied value takes part in the comparison: a difference can vanish from the diff)" % kind.replace("ListenerConfig", ""))
        wit.append(q([engine.OR(*[c.guard for c in cmps])])[0])
    res["witness"] = "listener comparisons reachable: %s" % wit
    res["witness_ok"] = len(wit) == 4 and all(w == "sat" for w in wit)
    res["queries"], res["solver_s"] = q.n, round(q.secs, 2)
    if problems:
        return dict(res, verdict="counterexample", text="; ".join(sorted(set(problems))), model={"problems": problems}, replay={"reproduced": False, "why": "no native replay"})
    return dict(res, verdict="holds")


def run(ob, tier):
    if ob.get("which") == "order":
        return order(ob, tier)
    if ob.get("which") == "listeners_compared":
        return listeners_compared(ob, tier)
    return _run_c06(ob, tier)
