"""C03 — trailers never carry a ':'-prefixed field name to the backend (engine M).
classify_invalid_h2_header deliberately skips name validation for names that start with ':'
(its callers whitelist the pseudo-headers of the initial HEADERS block); the trailer path has
no whitelist, so handle_trailer's per-field callback has to reject every such name itself
before the generic classifier and before anything is pushed into the kawa blocks — otherwise
`:a\\r\\nx-injected: 1` in a trailer block is serialised as a header line towards an H1 backend.
The callback closure is executed from its MIR; hpack, metrics and kawa pushes uninterpreted."""
import re

from .. import engine
from ... import mirrun
from .c16 import Q


def trailer_pseudo(ob, tier):
    fn = mirrun.get_fn("lib", "handle_trailer::{closure#0}")
    ex = engine.Executor(fn, loop_bound=lambda f, h: 1, max_nodes=200000)
    ev = ex.run()
    for i, e in enumerate(ev):
        e.seq = i
    q = Q(ex.ctx)
    res = {"paths": ex.stats["nodes"], "functions": [fn.name]}
    stmts = [st for b in fn.blocks.values() for st in b["stmts"]]
    sw = []
    for e in ev:
        if e.kind == "call" and e.callee.endswith("<impl [u8]>::starts_with") and e.result is not None:
            loc = e.args[1]["text"].split()[-1]
            # follow `_28 = move _29 as &[u8] (..)` / `_29 = const b":"`
            for _ in range(3):
                m = next((re.match(r"^%s = (?:move|copy) (_\d+)(?: as .*)?$" % re.escape(loc), st) for st in stmts
                          if re.match(r"^%s = (?:move|copy) (_\d+)(?: as .*)?$" % re.escape(loc), st)), None)
                if not m:
                    break
                loc = m.group(1)
            if any(re.match(r'^%s = const b":"$' % re.escape(loc), st) for st in stmts) or e.args[1]["text"].strip() == 'const b":"':
                sw.append(e)
    cls = [e for e in ev if e.kind == "call" and re.search(r"(^|::)classify_invalid_h2_header$", e.callee)]
    push = [e for e in ev if e.kind == "call" and e.callee.endswith("::push_block")]
    rets = [e for e in ev if e.kind == "return"]
    if not push or not cls or len(rets) != 1:
        return dict(res, verdict="inconclusive", why="shape: pushes=%d classifier calls=%d" % (len(push), len(cls)))
    problems = []
    if not sw:
        problems.append("trailer field names are not screened for a leading ':' (the generic classifier skips name validation for such names: pseudo-headers and CR/LF-bearing ':'-names reach the backend)")
    else:
        screened = engine.OR(*[engine.AND(s.guard, engine.NOT(s.result.term)) for s in sw])
        for p in push:
            if q([p.guard, engine.NOT(screened)])[0] != "unsat":
                problems.append("a trailer field can be pushed to the backend without having passed the ':'-prefix test")
        for c in cls:
            if q([c.guard, engine.OR(*[engine.AND(s.guard, s.result.term) for s in sw])])[0] != "unsat":
                problems.append("a ':'-prefixed trailer name is handed to the generic classifier (which does not validate such names)")
        flags = [w for w in ev if w.kind == "write" and w.value == "true"]
        hit = engine.OR(*[engine.AND(s.guard, s.result.term) for s in sw])
        if q([rets[0].guard, hit, engine.NOT(engine.OR(*[w.guard for w in flags]))])[0] != "unsat":
            problems.append("a ':'-prefixed trailer name does not mark the trailer block invalid")
    wit = [q([engine.OR(*[p.guard for p in push])])[0]] + ([q([engine.OR(*[engine.AND(s.guard, s.result.term) for s in sw])])[0]] if sw else [])
    res["witness"] = "accept path / ':'-reject path reachable: %s" % wit
    res["witness_ok"] = all(w == "sat" for w in wit)
    res["queries"], res["solver_s"] = q.n, round(q.secs, 2)
    if problems:
        return dict(res, verdict="counterexample", text="; ".join(sorted(set(problems))), model={"problems": problems}, replay={"reproduced": False, "why": "no native replay"})
    return dict(res, verdict="holds")


def cl_parse(ob, tier):
    """write_regular_header: the length recorded for a Content-Length field is the value the
    overflow-rejecting std parser (`str::parse::<usize>`) produced, and a value it cannot
    represent (>= 2^64) rejects the message; a clamped / wrapped value would let sozu and a
    bignum or truncating backend disagree on where the body ends"""
    from .c16 import closure_of
    fn = mirrun.get_fn("lib", "write_regular_header", sig="_1: &mut Kawa<pool::Checkout>, _2: &[u8], _3: &[u8]")
    ex = engine.Executor(fn, loop_bound=lambda f, h: 1, max_nodes=200000)
    ev = ex.run()
    q = Q(ex.ctx)
    res = {"paths": ex.stats["nodes"], "functions": [fn.name]}
    setcl = [e for e in ev if e.kind == "call" and re.search(r"(^|::)set_content_length$", e.callee)]
    rets = [e for e in ev if e.kind == "return"]
    if len(setcl) != 1 or len(rets) != 1:
        return dict(res, verdict="inconclusive", why="shape: set_content_length calls=%d" % len(setcl))
    problems, wit = [], []
    length = setcl[0].args[1]["val"].term
    srcs = [e for e in ev if e.kind == "call" and e.dest and ex.initial.get("(%s as Some).0" % e.dest) is not None
            and ex.initial["(%s as Some).0" % e.dest].term == length]
    parsed = None
    for e in srcs:
        cf = closure_of(e.callee)
        if cf is None:
            continue
        ex2 = engine.Executor(cf)
        ev2 = ex2.run()
        pr = [c for c in ev2 if c.kind == "call" and re.search(r"<impl str>::parse::<usize>$", c.callee)]
        ok = [c for c in ev2 if c.kind == "call" and re.search(r"Result::<usize, .*>::ok$", c.callee)]
        if len(pr) == 1 and len(ok) == 1:
            parsed = e
            res["functions"].append(cf.name)
    if parsed is None:
        problems.append("the length handed to set_content_length does not come from `str::parse::<usize>` (a value >= 2^64 is not rejected but clamped / wrapped)")
    else:
        pd = parsed.result_discr or ex.initial.get("discr(%s)" % parsed.dest)
        some = "(= %s %s)" % (pd.term, engine.bv(1, 64))
        if q([setcl[0].guard, engine.NOT(some)])[0] != "unsat":
            problems.append("set_content_length can be reached without a successfully parsed value")
        d0 = rets[0].env.get("discr(_0)")
        if d0 is None or q([rets[0].guard, parsed.guard, engine.NOT(some), engine.NOT("(= %s %s)" % (d0.term, engine.bv(1, 64)))])[0] != "unsat":
            problems.append("an unparsable (overflowing) Content-Length does not reject the message")
        wit += [q([parsed.guard, engine.NOT(some)])[0]]
    wit += [q([setcl[0].guard])[0]]
    res["witness"] = "overflow branch / accept branch reachable: %s" % wit
    res["witness_ok"] = all(w == "sat" for w in wit)
    res["queries"], res["solver_s"] = q.n, round(q.secs, 2)
    if problems:
        return dict(res, verdict="counterexample", text="; ".join(problems), model={"problems": problems}, replay={"reproduced": False, "why": "no native replay"})
    return dict(res, verdict="holds")


def run(ob, tier):
    return {"trailer_pseudo": trailer_pseudo, "cl_parse": cl_parse}[ob["which"]](ob, tier)
