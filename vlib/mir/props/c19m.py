"""C19 — the UdpManager's use of the per-flow machine (engine M).

The Kani harnesses of c19.rs decide what one UdpFlow step does (counting, caps, deadlines,
generation tokens).  What they cannot see is how the manager composes those steps around its
containers (HashMap + Slab are out of Kani's reach here).  These obligations symbolically
execute the manager's own functions with every container / flow call uninterpreted and
decide the *protocol* the manager follows around them:

  config     on_config stores exactly the value carried by the event (SetMaxFlows(n) -> cap n,
             SetMaxRxDatagramSize(n) -> n, Drain -> draining) and nothing else
  admission  on_client_datagram allocates a slab slot only for an untracked key, when not
             draining, and when flows.len() < max_flows was observed with no slab mutation in
             between; a tracked key is handed to forward_on_existing_flow; every other path
             emits a drop
  teardown   in forward_on_existing_flow / on_backend_resolved / on_backend_datagram every
             counted datagram (UdpFlow::on_client_datagram / on_backend_datagram) is followed
             by a teardown_reason() taken AFTER the count, and close_flow runs exactly when
             that answer is Some
"""
import re

from .. import engine
from ... import mirrun
from .c16 import Q

MANAGER = "/lib/src/protocol/udp/manager.rs"
SIG = "&mut UdpManager<E>"


def field_index(field):
    src = open(mirrun.REPO + MANAGER).read()
    m = re.search(r"pub struct UdpManager<[^{]*\{(.*?)\n\}", src, re.S)
    names = re.findall(r"^\s*(?:pub(?:\([\w:]+\))? )?(\w+):", m.group(1), re.M)
    return names.index(field)


def load(fname):
    fn = mirrun.get_fn("lib", "manager::" + fname if False else "::" + fname, sig=SIG)
    ex = engine.Executor(fn)
    ev = ex.run()
    for i, e in enumerate(ev):
        e.seq = i
    return fn, ex, ev


def calls(ev, pat):
    return [e for e in ev if e.kind == "call" and re.search(pat, e.callee)]


def result(res, problems, q, wit_ok, witness):
    res = dict(res, witness=witness, witness_ok=wit_ok, queries=q.n, solver_s=round(q.secs, 2))
    if problems:
        return dict(res, verdict="counterexample", text="; ".join(problems), model={"problems": problems},
                    replay={"reproduced": False, "why": "no native replay"})
    return dict(res, verdict="holds")


def config(ob, tier):
    fn, ex, ev = load("on_config")
    q = Q(ex.ctx)
    res = {"paths": ex.stats["nodes"], "functions": [fn.name]}
    src = open(mirrun.REPO + MANAGER).read()
    m = re.search(r"pub enum ConfigEvent \{(.*?)\n\}", open(mirrun.REPO + "/lib/src/protocol/udp/mod.rs").read(), re.S)
    variants = re.findall(r"^\s*(\w+)(?:\(|,|\s*$)", re.sub(r"///.*", "", m.group(1)), re.M) if m else []
    want = {"SetMaxFlows": "max_flows", "SetMaxRxDatagramSize": "max_rx_datagram_size", "Drain": "draining"}
    if not all(v in variants for v in want):
        return dict(res, verdict="inconclusive", why="ConfigEvent variants not found: %s" % variants)
    d = ex.initial.get("discr(_2)")
    rets = [e for e in ev if e.kind == "return"]
    writes = [e for e in ev if e.kind == "write"]
    if d is None or len(rets) != 1:
        return dict(res, verdict="inconclusive", why="shape: discr=%s returns=%d" % (d, len(rets)))
    problems, wit = [], []
    for var, field in want.items():
        idx = variants.index(var)
        place = "(*_1).%d" % field_index(field)
        is_var = "(= %s %s)" % (d.term, engine.bv(idx, 64))
        mine = [w for w in writes if w.place == place]
        # stored on every path of that variant
        v, _, _ = q([rets[0].guard, is_var] + [engine.NOT(w.guard) for w in mine])
        if v != "unsat":
            problems.append("%s does not always store %s (%s)" % (var, field, v))
        for w in mine:
            v, _, _ = q([w.guard, engine.NOT(is_var)])
            if v != "unsat":
                problems.append("%s is written by an event other than %s (%s)" % (field, var, v))
            if var == "Drain":
                v, _, _ = q([w.guard, engine.NOT(w.value)])
                if v != "unsat":
                    problems.append("Drain can store draining = false (%s)" % v)
            else:
                arg = ex.initial.get("(_2 as %s).0" % var)
                if arg is None:
                    problems.append("%s: the stored value does not come from the event payload" % var)
                    continue
                v, _, _ = q([w.guard, engine.NOT("(= %s %s)" % (w.value, arg.term))])
                if v != "unsat":
                    problems.append("%s(n) stores a value other than n into %s (%s)" % (var, field, v))
        wit.append(q([rets[0].guard, is_var])[0])
    # the table, the slab and the output queue are not touched by a config event
    for e in ev:
        if e.kind in ("havoc", "write") and re.match(r"^\(\*_1\)\.(%d|%d)\b" % (field_index("table"), field_index("flows")), e.place):
            problems.append("on_config touches the flow table / slab (%s)" % e.place)
    return result(res, problems, q, all(w == "sat" for w in wit), "each config variant reachable: %s; %d writes" % (wit, len(writes)))


def admission(ob, tier):
    fn, ex, ev = load("on_client_datagram")
    q = Q(ex.ctx)
    res = {"paths": ex.stats["nodes"], "functions": [fn.name]}
    flows_i, table_i = field_index("flows"), field_index("table")
    drain0 = ex.initial.get("(*_1).%d" % field_index("draining"))
    max0 = ex.initial.get("(*_1).%d" % field_index("max_flows"))
    ins = calls(ev, r"Slab::<UdpFlow>::insert$")
    tins = calls(ev, r"HashMap::<FlowKey, usize>::insert$")
    lens = calls(ev, r"Slab::<UdpFlow>::len$")
    gets = calls(ev, r"HashMap::<FlowKey, usize>::get(::<.*>)?$")
    fwd = calls(ev, r"::forward_on_existing_flow$")
    drops = calls(ev, r"::drop_datagram$")
    rets = [e for e in ev if e.kind == "return"]
    if drain0 is None or max0 is None or len(ins) != 1 or len(tins) != 1 or not lens or len(gets) != 1 or len(fwd) != 1 or len(rets) != 1:
        return dict(res, verdict="inconclusive", why="shape: draining=%s max=%s slab inserts=%d table inserts=%d len=%d get=%d fwd=%d" % (
            drain0, max0, len(ins), len(tins), len(lens), len(gets), len(fwd)))
    ins, tins, get, fwd, ret = ins[0], tins[0], gets[0], fwd[0], rets[0]
    problems = []
    # slab mutations before the insert invalidate an observed len()
    muts = [e for e in ev if e.kind in ("havoc", "write") and re.match(r"^\(\*_1\)\.%d\b" % flows_i, e.place) and e.seq < ins.seq]

    def fresh(l):
        return not any(l.seq < m.seq for m in muts)
    room = engine.OR(*[engine.AND(l.guard, "(bvult %s %s)" % (l.result.term, max0.term)) for l in lens if l.seq < ins.seq and fresh(l) and l.result is not None])
    v, _, _ = q([ins.guard, drain0.term])
    if v != "unsat":
        problems.append("a new flow can be admitted while draining (%s)" % v)
    v, _, _ = q([ins.guard, engine.NOT(room)])
    if v != "unsat":
        problems.append("a new flow can be admitted without flows.len() < max_flows having been observed (%s)" % v)
    gd = get.result_discr
    if gd is None:
        gd = ex.initial.get("discr(%s)" % get.dest)
    v, _, _ = q([ins.guard, "(= %s %s)" % (gd.term, engine.bv(1, 64))])
    if v != "unsat":
        problems.append("a new slot can be allocated for a key that is already tracked (%s)" % v)
    v, _, _ = q([get.guard, "(= %s %s)" % (gd.term, engine.bv(1, 64)), engine.NOT(fwd.guard)])
    if v != "unsat":
        problems.append("a datagram of a tracked key is not handed to forward_on_existing_flow (%s)" % v)
    v, _, _ = q([engine.OR(engine.AND(ins.guard, engine.NOT(tins.guard)), engine.AND(tins.guard, engine.NOT(ins.guard)))])
    if v != "unsat":
        problems.append("slab insert and table insert are not paired (%s)" % v)
    # every path: exactly one of {admit, forward, drop}
    outcome = [ins.guard, fwd.guard] + [d.guard for d in drops]
    v, _, _ = q([ret.guard] + [engine.NOT(g) for g in outcome])
    if v != "unsat":
        problems.append("a client datagram can be neither admitted, forwarded nor dropped (%s)" % v)
    for i in range(len(outcome)):
        for j in range(i + 1, len(outcome)):
            v, _, _ = q([outcome[i], outcome[j]])
            if v != "unsat":
                problems.append("two outcomes for one datagram (%s)" % v)
    wit = [q([ins.guard])[0], q([fwd.guard])[0], q([engine.OR(*[d.guard for d in drops])])[0]]
    return result(res, problems, q, all(w == "sat" for w in wit), "admit / forward / drop reachable: %s; %d len() observations, %d drop sites" % (wit, len(lens), len(drops)))


COUNTED = {
    "forward_on_existing_flow": r"UdpFlow::on_client_datagram$",
    "on_backend_resolved": r"UdpFlow::on_client_datagram$",
    "on_backend_datagram": r"UdpFlow::on_backend_datagram$",
}


def teardown(ob, tier):
    problems, wit, fnames, nodes = [], [], [], 0
    tq, ts = 0, 0.0
    for fname, pat in COUNTED.items():
        fn, ex, ev = load(fname)
        q = Q(ex.ctx)
        fnames.append(fn.name)
        nodes += ex.stats["nodes"]
        cnt = calls(ev, pat)
        tr = calls(ev, r"UdpFlow::teardown_reason$")
        close = calls(ev, r"::close_flow$")
        resched = calls(ev, r"::reschedule$")
        if len(cnt) != 1 or not tr:
            problems.append("%s: shape (counting calls=%d teardown_reason calls=%d)" % (fname, len(cnt), len(tr)))
            continue
        c = cnt[0]
        after = [t for t in tr if t.seq > c.seq]
        # the decision must be read after the count on every counted path
        v, _, _ = q([c.guard] + [engine.NOT(t.guard) for t in after])
        if v != "unsat":
            problems.append("%s: a counted datagram is not followed by teardown_reason() on the updated flow (%s)" % (fname, v))
            tq += q.n
            ts += q.secs
            continue
        some = []
        for t in after:
            d = t.result_discr or ex.initial.get("discr(%s)" % t.dest)
            if d is None:
                d = ex.read_discr({}, t.dest)
            some.append(engine.AND(t.guard, "(= %s %s)" % (d.term, engine.bv(1, 64))))
        decided = engine.AND(c.guard, engine.OR(*some))
        closed = engine.OR(*[k.guard for k in close]) if close else "false"
        v, _, _ = q([decided, engine.NOT(closed)])
        if v != "unsat":
            problems.append("%s: teardown_reason() = Some after a counted datagram does not close the flow (%s)" % (fname, v))
        v, _, _ = q([c.guard, closed, engine.NOT(decided)])
        if v != "unsat":
            problems.append("%s: the flow is closed although teardown_reason() after the count said None (%s)" % (fname, v))
        # a flow that stays open is rescheduled (its refreshed deadline is armed)
        rs = engine.OR(*[r.guard for r in resched]) if resched else "false"
        rets = [e for e in ev if e.kind == "return"]
        v, _, _ = q([rets[0].guard, c.guard, engine.NOT(closed), engine.NOT(rs)])
        if v != "unsat":
            problems.append("%s: a flow kept open after a counted datagram is not rescheduled (%s)" % (fname, v))
        # stale decisions must not drive the close
        wit.append(q([decided])[0])
        wit.append(q([rets[0].guard, c.guard, engine.NOT(closed)])[0])
        tq += q.n
        ts += q.secs
    res = {"paths": nodes, "functions": fnames, "witness": "close and keep-open both reachable after a counted datagram: %s" % wit,
           "witness_ok": bool(wit) and all(w == "sat" for w in wit), "queries": tq, "solver_s": round(ts, 2)}
    if problems:
        return dict(res, verdict="counterexample", text="; ".join(problems), model={"problems": problems},
                    replay={"reproduced": False, "why": "no native replay"})
    return dict(res, verdict="holds")


def close_guarded(ob, tier):
    """close_flow: the flow table may hold another live flow under the key this flow would have
    today (mid-flow affinity change): an entry is removed only after `table.get(key)` was seen to
    map to *this* flow id, never blindly"""
    fn, ex, ev = load("close_flow")
    q = Q(ex.ctx)
    res = {"paths": ex.stats["nodes"], "functions": [fn.name]}
    rem = calls(ev, r"HashMap::<FlowKey, usize>::remove(::<.*>)?$")
    gets = calls(ev, r"HashMap::<FlowKey, usize>::get(::<.*>)?$")
    eqs = calls(ev, r"<Option<&usize> as PartialEq>::(eq|ne)$")
    slab = calls(ev, r"Slab::<UdpFlow>::remove$")
    if not rem or len(slab) != 1:
        return dict(res, verdict="inconclusive", why="shape: table removes=%d slab removes=%d" % (len(rem), len(slab)))
    problems = []
    for r in rem:
        key = r.args[1]["val"].ref or r.args[1]["text"]
        mine = []
        for g in gets:
            if g.seq < r.seq and (g.args[1]["val"].ref or g.args[1]["text"]) == key:
                for e in eqs:
                    if g.seq < e.seq < r.seq and g.dest in (e.args[0]["val"].ref, e.args[0]["text"].split()[-1]) and e.result is not None:
                        t = e.result.term if e.callee.endswith("::eq") else engine.NOT(e.result.term)
                        mine.append(engine.AND(e.guard, t))
        if not mine or q([r.guard, engine.NOT(engine.OR(*mine))])[0] != "unsat":
            problems.append("a flow-table entry is removed without `table.get(key) == Some(&flow_id)` having held for that key: closing a flow can unmap another live flow that owns the key now")
    # the compared id is this flow's id
    for e in eqs:
        pass
    wit = [q([engine.OR(*[r.guard for r in rem])])[0], q([slab[0].guard])[0]]
    return result(res, problems, q, all(w == "sat" for w in wit), "table removal / slab removal reachable: %s; %d guarded lookups" % (wit, len(gets)))


def shell_inflight(ob, tier):
    """UdpListenerSession::ingest_client (the I/O shell): `in_flight_flow` (the upstream opened
    by the datagram being processed) is cleared for *every* datagram of a readable batch before
    the manager sees it; a stale value routes the next client's datagram to the previous
    client's upstream socket"""
    src = open(mirrun.REPO + "/lib/src/udp.rs").read()
    m = re.search(r"pub struct UdpListenerSession \{(.*?)\n\}", src, re.S)
    names = re.findall(r"^\s*(?:pub(?:\([\w:]+\))? )?(\w+):", re.sub(r"//.*", "", m.group(1)), re.M)
    place = "(*_1).%d" % names.index("in_flight_flow")
    fn = mirrun.get_fn("lib", "::ingest_client", sig="&mut UdpListenerSession")
    ex = engine.Executor(fn, loop_bound=lambda f, h: 1)
    ev = ex.run()
    for i, e in enumerate(ev):
        e.seq = i
    q = Q(ex.ctx)
    res = {"paths": ex.stats["nodes"], "functions": [fn.name]}
    hs = calls(ev, r"UdpManager::<.*>::handle_input$|UdpManager::handle_input$")
    if not hs:
        return dict(res, verdict="inconclusive", why="handle_input call not found")
    problems = []
    for h in hs:
        if not h.node[1]:
            problems.append("handle_input is not called from the receive loop")
            continue
        stmts = [st for b in fn.blocks.values() for st in b["stmts"]]

        def is_none(w):
            t = getattr(w, "text", "") or ""
            if re.search(r"::None$", t):
                return True
            m2 = re.match(r"^(?:move|copy) (_\d+)$", t)
            return bool(m2) and any(re.match(r"^%s = .*::None$" % re.escape(m2.group(1)), st) for st in stmts) \
                and not any(re.match(r"^%s = .*::Some\(" % re.escape(m2.group(1)), st) for st in stmts)
        clears = [w for w in ev if w.kind == "write" and w.place == place and w.node[1] == h.node[1] and w.seq < h.seq and is_none(w)]
        if not clears or q([h.guard, engine.NOT(engine.OR(*[w.guard for w in clears]))])[0] != "unsat":
            problems.append("a datagram of a batch can reach the manager without in_flight_flow having been cleared for it (it is then written to the upstream socket opened for the previous datagram's flow)")
            break
    wit = [q([h.guard])[0] for h in hs[:2]]
    return result(res, problems, q, all(w == "sat" for w in wit), "handle_input reachable in the unrolled passes: %s" % wit)


def run(ob, tier):
    return {"config": config, "admission": admission, "teardown": teardown, "close_guarded": close_guarded,
            "shell_inflight": shell_inflight}[ob["which"]](ob, tier)
