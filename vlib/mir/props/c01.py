"""C01 — received H2 DATA is appended to the stream buffer without shifting or re-reading
bytes: ConnectionH2::handle_data_frame from MIR (engine M).

The payload slice the parser hands over is relative to the unparsed region; the function
rebases it on `kawa.storage.head` and then consumes the whole wire payload (pad-length byte
+ data + padding) from the buffer.  Decided for every (payload start, length, wire length,
head): the rebasing uses the head value *before* it is advanced, the head advances by
exactly the wire length (so padding is skipped, not replayed as body), and flow-control
credit is counted in wire bytes.  HashMap lookups, content-length bookkeeping, resets and
flood checks are uninterpreted calls."""
import glob
import re

from .. import engine
from ... import mirrun
from .c16 import Q


def kawa_fields(file, struct):
    src = open(glob.glob("/root/.cargo/registry/src/*/kawa-0.6.8/src/storage/%s.rs" % file)[0]).read()
    m = re.search(r"pub struct %s<T: AsBuffer> \{(.*?)\n\}" % struct, src, re.S)
    return re.findall(r"^\s*pub (\w+):", m.group(1), re.M)


def struct_fields(path, struct):
    src = open(mirrun.REPO + path).read()
    m = re.search(r"pub struct %s(?:<[^{]*>)? \{(.*?)\n\}" % struct, src, re.S)
    return re.findall(r"^\s*(?:pub(?:\([\w:]+\))? )?(\w+):", re.sub(r"//.*", "", m.group(1)), re.M)


def data_rx(ob, tier):
    fn = mirrun.get_fn("lib", "::handle_data_frame")
    ex = engine.Executor(fn, loop_bound=lambda f, h: 1, max_nodes=200000)
    ev = ex.run()
    for i, e in enumerate(ev):
        e.seq = i
    q = Q(ex.ctx)
    res = {"paths": ex.stats["nodes"], "functions": [fn.name]}
    storage_i = kawa_fields("repr", "Kawa").index("storage")
    head_i = kawa_fields("buffer", "Buffer").index("head")
    conn_f = struct_fields("/lib/src/protocol/mux/h2.rs", "ConnectionH2")
    fc_i = conn_f.index("flow_control")
    rb_i = struct_fields("/lib/src/protocol/mux/h2.rs", "H2FlowControl").index("received_bytes_since_update")
    wire = ex.initial.get("_3")
    if wire is None:
        return dict(res, verdict="inconclusive", why="wire_payload_len (_3) is never read")
    wire64 = "((_ zero_extend 32) %s)" % wire.term
    head_w = [e for e in ev if e.kind == "write" and re.match(r"^\(\*_\d+\)\.%d\.%d$" % (storage_i, head_i), e.place) and e.value]
    rebase = [e for e in ev if e.kind == "call" and re.search(r"<impl u32>::saturating_add$", e.callee)]
    pushes = [e for e in ev if e.kind == "call" and e.callee.endswith("::push_block")]
    credit = [e for e in ev if e.kind == "write" and e.place == "(*_1).%d.%d" % (fc_i, rb_i) and e.value and not re.match(r"^\(_ bv0 ", e.value)]
    problems, wit = [], []
    if len(head_w) != 1 or len(rebase) != 1 or not pushes:
        return dict(res, verdict="inconclusive", why="shape: storage.head writes=%d slice rebases=%d push_block=%d" % (len(head_w), len(rebase), len(pushes)))
    w, rb = head_w[0], rebase[0]
    old = engine.Val(w.prev, 64) if w.prev else None
    if old is None:
        problems.append("storage.head is overwritten without being read")
    else:
        if q([w.guard, engine.NOT("(= %s (bvadd %s %s))" % (w.value, old.term, wire64))])[0] != "unsat":
            problems.append("storage.head does not advance by exactly the wire payload length (padding would be replayed as body, or data skipped)")
        a0, a1 = rb.args[0]["val"].term, rb.args[1]["val"].term
        if q([rb.guard, engine.NOT("(= %s ((_ extract 31 0) %s))" % (a1, old.term))])[0] != "unsat":
            problems.append("the payload slice is not rebased on the head value from before the advance")
        # the rebased operand is the parser's payload start (an entry value of `data`)
        if not any(v.term == a0 for k, v in ex.initial.items() if k.startswith("_2.")):
            res["debug"] = "a0=%s initial=%s" % (a0, [(k, v.term) for k, v in ex.initial.items() if "_2" in k or "_35" in k])
            problems.append("the rebased slice start is not the parsed payload's start")
    ovf = [e.guard for e in ev if e.kind == "assert"]
    if q([w.guard, engine.NOT(rb.guard)])[0] != "unsat" or q([rb.guard, engine.NOT(w.guard)] + [engine.NOT(g) for g in ovf])[0] != "unsat":
        problems.append("rebasing the slice and consuming the wire bytes are not paired")
    chunk_push = [p for p in pushes if q([p.guard, w.guard])[0] == "sat"]
    if q([w.guard, engine.NOT(engine.OR(*[p.guard for p in pushes]))])[0] != "unsat":
        problems.append("wire bytes are consumed without a chunk being queued")
    for c in credit:
        if not c.prev or q([c.guard, engine.NOT("(= %s (bvadd %s %s))" % (c.value, c.prev, wire.term))])[0] != "unsat":
            problems.append("flow-control credit is not counted in wire bytes (payload + padding)")
    if not credit:
        problems.append("no flow-control credit accounting found")
    wit = [q([w.guard])[0], q([engine.OR(*[c.guard for c in credit])])[0] if credit else "none"]
    res["witness"] = "append path / credit path reachable: %s; %d chunk pushes on the append path" % (wit, len(chunk_push))
    res["witness_ok"] = all(x == "sat" for x in wit) and len(chunk_push) >= 1
    res["queries"], res["solver_s"] = q.n, round(q.secs, 2)
    if problems:
        return dict(res, verdict="counterexample", text="; ".join(problems), model={"problems": problems}, replay={"reproduced": False, "why": "no native replay"})
    return dict(res, verdict="holds")


# ---------------------------------------------------------------------------------------
# Mux::ready — a paused client must not get its session killed by the loop budget

def ready_bits():
    src = open(mirrun.REPO + "/command/src/ready.rs").read()
    return {n: int(v, 2) for n, v in re.findall(r"pub const (\w+): Ready = Ready\(0b([01]+)\);", src)}


def ready_models(bits):
    """exact models of the Ready / Readiness bit algebra (command/src/ready.rs, lib/src/lib.rs:
    the same functions the Kani harness c14::c01_readiness_never_loses_writable decides) so
    that readiness words are 16-bit values instead of opaque handles"""
    from ..engine import Val, bv

    def conn_place(ex, env, a):
        return a["val"].ref if a["val"].ref is not None else "(*%s)" % a["place"]

    def m_readiness(ex, env, node, guard, ev, dest, dty):
        base = conn_place(ex, env, ev.args[0])
        ex.kill(env, dest)
        env[dest] = Val(ex.ctx.sym("ref.rd", 64), 64, ref=base + ".@rd", mut="readiness_mut" in ev.callee)
        return True

    def word(ex, env, place):
        return ex.read(env, place + ".0", "u16")

    def m_filter(ex, env, node, guard, ev, dest, dty):
        r = ev.args[0]["val"].ref
        if r is None:
            return False
        e, i = word(ex, env, r + ".0"), word(ex, env, r + ".1")
        ex.kill(env, dest)
        env[dest] = Val(ex.ctx.sym("ready", 64), 64)
        env[dest + ".0"] = Val(ex.ctx.define("filt", 16, "(bvand %s %s)" % (e.term, i.term)), 16)
        return True

    def m_test(ex, env, node, guard, ev, dest, dty):
        r = ev.args[0]["val"].ref
        if r is None:
            return False
        w = word(ex, env, r)
        name = ev.callee.split("::")[-1]
        if name == "is_empty":
            t = "(= %s %s)" % (w.term, bv(0, 16))
        else:
            b = bits[{"is_readable": "READABLE", "is_writable": "WRITABLE", "is_error": "ERROR", "is_hup": "HUP"}[name]]
            t = "(= (bvand %s %s) %s)" % (w.term, bv(b, 16), bv(b, 16))
        ex.kill(env, dest)
        env[dest] = Val(ex.ctx.define("rt", "Bool", t), "Bool")
        return True

    def m_remove(ex, env, node, guard, ev, dest, dty):
        r = ev.args[0]["val"].ref
        m = re.search(r"Ready::(\w+)$", ev.args[1]["text"])
        if r is None or not m or m.group(1) not in bits:
            return False
        w = word(ex, env, r)
        new = Val("(bvand %s %s)" % (w.term, bv(0xFFFF ^ bits[m.group(1)], 16)), 16)
        ex.store(env, node, guard, r + ".0", new, False)
        ex.events.append(engine.Event("ready_remove", guard, node, place=r, bit=m.group(1)))
        return True
    def m_insert(ex, env, node, guard, ev, dest, dty):
        r = ev.args[0]["val"].ref
        m = re.search(r"Ready::(\w+)$", ev.args[1]["text"])
        if r is None or not m or m.group(1) not in bits:
            return False
        w = word(ex, env, r)
        new = Val("(bvor %s %s)" % (w.term, bv(bits[m.group(1)], 16)), 16)
        ex.store(env, node, guard, r + ".0", new, False)
        ex.events.append(engine.Event("ready_insert", guard, node, place=r, bit=m.group(1)))
        return True
    return [
        (r"ready::Ready::insert::<.*>$", m_insert),
        (r"connection::Connection::<.*>::readiness(_mut)?$", m_readiness),
        (r"Readiness::filter_interest$", m_filter),
        (r"ready::Ready::(is_empty|is_readable|is_writable|is_error|is_hup)$", m_test),
        (r"ready::Ready::remove::<.*>$", m_remove),
    ]


HANDLERS = r"connection::Connection::<.*>::(readable|writable|close|try_resume_reading)(::<.*>)?$|::delay_close_for_frontend_flush$|Router::connect"


def ready_spin(ob, tier):
    """One pass of Mux::ready's inner event loop with the client idle (its filtered readiness
    empty: paused, would-blocked).  Either some connection handler runs (progress) or the loop
    is left (back to epoll).  A pass that does neither changes nothing, so it repeats until
    the 10 000-iteration budget closes the session with the response still buffered."""
    bits = ready_bits()
    if not all(k in bits for k in ("READABLE", "WRITABLE", "ERROR", "HUP")):
        return {"verdict": "inconclusive", "why": "Ready bit constants not found: %s" % bits}
    fn = mirrun.get_fn("lib", "::ready", sig="_1: &mut Mux<Front, L>")
    ex = engine.Executor(fn, loop_bound=lambda f, h: 1, max_nodes=200000, models=ready_models(bits))
    ev = ex.run()
    for i, e in enumerate(ev):
        e.seq = i
    q = Q(ex.ctx)
    res = {"paths": ex.stats["nodes"], "functions": [fn.name]}
    # the inner loop: the loop nested directly in the outermost one whose body tests the frontend readiness
    tests = [e for e in ev if e.kind == "call" and e.callee.endswith("Readiness::filter_interest") and len(e.node[1]) == 2
             and all(i == 0 for _, i in e.node[1])]
    if not tests:
        return dict(res, verdict="inconclusive", why="inner loop not found")
    outer, inner = tests[0].node[1][0][0], tests[0].node[1][1][0]

    def in_pass0(e):
        c = e.node[1]
        return len(c) >= 2 and c[0] == (outer, 0) and c[1] == (inner, 0)
    handlers = [e for e in ev if e.kind == "call" and in_pass0(e) and re.search(HANDLERS, e.callee)]
    nxt = (inner, ((outer, 0), (inner, 1)))
    cont = ex.node_guard.get(nxt)
    front = [k for k in ex.initial if re.match(r"^\(\*_1\)\.\d+\.@rd\.[01]\.0$", k)]
    fe = [ex.initial[k] for k in front if k.endswith(".@rd.0.0")]
    fi = [ex.initial[k] for k in front if k.endswith(".@rd.1.0")]
    press = [e for e in ev if e.kind == "call" and in_pass0(e) and "has_buffer_pressure" in e.callee]
    if cont is None or len(fe) != 1 or len(fi) != 1 or len(handlers) < 5 or not press:
        return dict(res, verdict="inconclusive", why="shape: second pass reachable=%s frontend words=%d/%d handler sites=%d pressure tests=%d" % (
            cont is not None, len(fe), len(fi), len(handlers), len(press)))
    idle = "(= (bvand %s %s) %s)" % (fe[0].term, fi[0].term, engine.bv(0, 16))
    silent = [engine.NOT(h.guard) for h in handlers]
    # backend words of the first backend visited in the first pass
    bk = sorted(k for k in ex.initial if re.search(r"\.@rd\.[01]\.0$", k) and k not in front)
    get = [ex.initial[k].term for k in bk] + [p.result.term for p in press if p.result is not None and p.result.sort == "Bool"]
    from .. import solve
    v, model, secs, detail = solve.check(ex.ctx.script([cont, idle] + silent, get=get))
    q.n += 1
    q.secs += secs
    wit = [q([cont])[0], q([engine.OR(*[h.guard for h in handlers])])[0]]
    res["witness"] = "second pass / handler sites reachable: %s; %d handler sites; Ready bits %s" % (wit, len(handlers), bits)
    res["witness_ok"] = all(w == "sat" for w in wit)
    res["queries"], res["solver_s"] = q.n, round(q.secs, 2)
    if v == "inconclusive":
        return dict(res, verdict="inconclusive", why=detail)
    if v == "sat":
        def show(w):
            return "".join(n[0] if w & b else "-" for n, b in (("R", bits["READABLE"]), ("W", bits["WRITABLE"]), ("E", bits["ERROR"]), ("H", bits["HUP"])))
        words = {k: model.get(ex.initial[k].term) for k in bk}
        desc = ", ".join("backend.%s=%s" % ("event" if k.endswith(".@rd.0.0") else "interest", show(w) if isinstance(w, int) else w) for k, w in words.items())
        pv = [model.get(p.result.term) for p in press if p.result is not None]
        # what the silent pass may still mutate (must be idempotent for the pass to repeat)
        cand = {}
        for e in ev:
            if e.kind in ("havoc", "write", "ready_remove") and in_pass0(e):
                cand.setdefault(e.place if e.kind != "ready_remove" else "readiness.event -= %s" % e.bit, []).append(e.guard)
        muts = sorted(k for k, gs in cand.items() if not re.match(r"^_\d+$", k) and q([cont, idle, engine.OR(*gs)] + silent)[0] == "sat")
        res["queries"], res["solver_s"] = q.n, round(q.secs, 2)
        text = ("with the client idle an event-loop pass can run no handler and still not leave the loop (backend hung up / in error "
                "under buffer pressure keeps the loop alive): the pass repeats unchanged until the iteration budget returns SessionResult::Close")
        import os
        rp = mirrun.native_test("c01_slow_client", "")
        return dict(res, verdict="counterexample", text=text,
                    model={"backend_words": desc, "has_buffer_pressure": pv, "mutations_on_the_silent_pass": muts},
                    replay={"reproduced": rp["ran"] and rp["failed"], "path": os.path.join(mirrun.VERIF, "replay/tests/c01_slow_client.rs"), "log": rp["log"]})
    return dict(res, verdict="holds")


def interim_storage(ob, tier):
    """ConnectionH1::writable, hand-over after an interim (1xx) response: `Kawa::clear` resets
    the parsed blocks only; the storage buffer may already hold the head and first body bytes of
    the final response (read in the same segment as the 1xx) and must not be wiped — the only
    `storage.clear()` is the keep-alive reset after a *final* response"""
    fn = mirrun.get_fn("lib", "::writable", sig="_1: &mut ConnectionH1<Front>")
    ex = engine.Executor(fn, loop_bound=lambda f, h: 1, max_nodes=200000, models=ready_models(ready_bits()))
    ev = ex.run()
    q = Q(ex.ctx)
    res = {"paths": ex.stats["nodes"], "functions": [fn.name]}
    codes = [v for k, v in ex.initial.items() if re.search(r" as Response\)\.\d+$", k) and v.sort == 16]
    wipes = [e for e in ev if e.kind == "call" and re.search(r"kawa::Buffer::<.*>::clear$", e.callee)]
    resets = [e for e in ev if e.kind == "call" and re.search(r"(^|::)Kawa::<.*>::clear$", e.callee)]
    if len(codes) != 1 or not resets:
        return dict(res, verdict="inconclusive", why="shape: status code reads=%d Kawa::clear calls=%d" % (len(codes), len(resets)))
    code = codes[0].term
    # the variant index of StatusLine::Response: the discriminant switch that leads to the
    # block reading `(… as Response).1`
    key = [k for k, v in ex.initial.items() if v is codes[0]][0]
    base = re.match(r"\((.*) as Response\)\.\d+$", key).group(1)
    dsym = ex.initial.get("discr(%s)" % base)
    variant = None
    for b in fn.order:
        m = re.match(r"switchInt\(move _\d+\) -> \[(.*)\]", fn.blocks[b]["term"])
        for val, tgt in re.findall(r"(\d+): (bb\d+)", m.group(1)) if m else []:
            if "as Response)" in fn.blocks[tgt]["term"]:
                variant = int(val)
    if dsym is None or variant is None:
        return dict(res, verdict="inconclusive", why="shape: no discriminant switch in front of the status code read")
    interim = engine.AND("(= %s %s)" % (dsym.term, engine.bv(variant, dsym.sort)),
                         engine.OR(*["(= %s %s)" % (code, engine.bv(c, 16)) for c in (100, 103)]))
    problems = []
    for w in wipes:
        if q([w.guard, interim])[0] != "unsat":
            problems.append("the response storage buffer is cleared in the hand-over after an interim (1xx) response: bytes of the final response already read into it are thrown away")
            break
    wit = [q([engine.OR(*[r.guard for r in resets]), interim])[0], q([engine.OR(*[w.guard for w in wipes])])[0] if wipes else "none"]
    res["witness"] = "interim hand-over / keep-alive reset reachable: %s; %d storage wipes" % (wit, len(wipes))
    res["witness_ok"] = wit[0] == "sat"
    res["queries"], res["solver_s"] = q.n, round(q.secs, 2)
    if problems:
        import os
        rp = mirrun.native_test("c01_interim", "")
        return dict(res, verdict="counterexample", text="; ".join(problems), model={"problems": problems},
                    replay={"reproduced": rp["ran"] and rp["failed"], "path": os.path.join(mirrun.VERIF, "replay/tests/c01_interim.rs"), "log": rp["log"]})
    return dict(res, verdict="holds")


def run(ob, tier):
    return {"data_rx": data_rx, "ready_spin": ready_spin, "interim_storage": interim_storage}[ob["which"]](ob, tier)
