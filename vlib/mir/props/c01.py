"""C01 — received H2 DATA is appended to the stream buffer without shifting or re-reading
bytes: ConnectionH2::handle_data_frame from MIR (engine M).

The payload slice the parser hands over is relative to the unparsed region; the function
rebases it on `kawa.storage.head` and then consumes the whole wire payload (pad-length byte
+ data + padding) from the buffer.  Decided for every (payload start, length, wire length,
head): the rebasing uses the head value *before* it is advanced, the head advances by
exactly the wire length (so padding is skipped, not replayed as body), and flow-control
credit is counted in wire bytes.  HashMap lookups, content-length bookkeeping, resets and
flood checks are uninterpreted calls."""
import glob
import re

from .. import engine
from ... import mirrun
from .c16 import Q


def kawa_fields(file, struct):
    src = open(glob.glob("/root/.cargo/registry/src/*/kawa-0.6.8/src/storage/%s.rs" % file)[0]).read()
    m = re.search(r"pub struct %s<T: AsBuffer> \{(.*?)\n\}" % struct, src, re.S)
    return re.findall(r"^\s*pub (\w+):", m.group(1), re.M)


def struct_fields(path, struct):
    src = open(mirrun.REPO + path).read()
    m = re.search(r"pub struct %s(?:<[^{]*>)? \{(.*?)\n\}" % struct, src, re.S)
    return re.findall(r"^\s*(?:pub(?:\([\w:]+\))? )?(\w+):", re.sub(r"//.*", "", m.group(1)), re.M)


def data_rx(ob, tier):
    fn = mirrun.get_fn("lib", "::handle_data_frame")
    ex = engine.Executor(fn, loop_bound=lambda f, h: 1, max_nodes=200000)
    ev = ex.run()
    for i, e in enumerate(ev):
        e.seq = i
    q = Q(ex.ctx)
    res = {"paths": ex.stats["nodes"], "functions": [fn.name]}
    storage_i = kawa_fields("repr", "Kawa").index("storage")
    head_i = kawa_fields("buffer", "Buffer").index("head")
    conn_f = struct_fields("/lib/src/protocol/mux/h2.rs", "ConnectionH2")
    fc_i = conn_f.index("flow_control")
    rb_i = struct_fields("/lib/src/protocol/mux/h2.rs", "H2FlowControl").index("received_bytes_since_update")
    wire = ex.initial.get("_3")
    if wire is None:
        return dict(res, verdict="inconclusive", why="wire_payload_len (_3) is never read")
    wire64 = "((_ zero_extend 32) %s)" % wire.term
    head_w = [e for e in ev if e.kind == "write" and re.match(r"^\(\*_\d+\)\.%d\.%d$" % (storage_i, head_i), e.place) and e.value]
    rebase = [e for e in ev if e.kind == "call" and re.search(r"<impl u32>::saturating_add$", e.callee)]
    pushes = [e for e in ev if e.kind == "call" and e.callee.endswith("::push_block")]
    credit = [e for e in ev if e.kind == "write" and e.place == "(*_1).%d.%d" % (fc_i, rb_i) and e.value and not re.match(r"^\(_ bv0 ", e.value)]
    problems, wit = [], []
    if len(head_w) != 1 or len(rebase) != 1 or not pushes:
        return dict(res, verdict="inconclusive", why="shape: storage.head writes=%d slice rebases=%d push_block=%d" % (len(head_w), len(rebase), len(pushes)))
    w, rb = head_w[0], rebase[0]
    old = engine.Val(w.prev, 64) if w.prev else None
    if old is None:
        problems.append("storage.head is overwritten without being read")
    else:
        if q([w.guard, engine.NOT("(= %s (bvadd %s %s))" % (w.value, old.term, wire64))])[0] != "unsat":
            problems.append("storage.head does not advance by exactly the wire payload length (padding would be replayed as body, or data skipped)")
        a0, a1 = rb.args[0]["val"].term, rb.args[1]["val"].term
        if q([rb.guard, engine.NOT("(= %s ((_ extract 31 0) %s))" % (a1, old.term))])[0] != "unsat":
            problems.append("the payload slice is not rebased on the head value from before the advance")
        # the rebased operand is the parser's payload start (an entry value of `data`)
        if not any(v.term == a0 for k, v in ex.initial.items() if k.startswith("_2.")):
            res["debug"] = "a0=%s initial=%s" % (a0, [(k, v.term) for k, v in ex.initial.items() if "_2" in k or "_35" in k])
            problems.append("the rebased slice start is not the parsed payload's start")
    ovf = [e.guard for e in ev if e.kind == "assert"]
    if q([w.guard, engine.NOT(rb.guard)])[0] != "unsat" or q([rb.guard, engine.NOT(w.guard)] + [engine.NOT(g) for g in ovf])[0] != "unsat":
        problems.append("rebasing the slice and consuming the wire bytes are not paired")
    chunk_push = [p for p in pushes if q([p.guard, w.guard])[0] == "sat"]
    if q([w.guard, engine.NOT(engine.OR(*[p.guard for p in pushes]))])[0] != "unsat":
        problems.append("wire bytes are consumed without a chunk being queued")
    for c in credit:
        if not c.prev or q([c.guard, engine.NOT("(= %s (bvadd %s %s))" % (c.value, c.prev, wire.term))])[0] != "unsat":
            problems.append("flow-control credit is not counted in wire bytes (payload + padding)")
    if not credit:
        problems.append("no flow-control credit accounting found")
    wit = [q([w.guard])[0], q([engine.OR(*[c.guard for c in credit])])[0] if credit else "none"]
    res["witness"] = "append path / credit path reachable: %s; %d chunk pushes on the append path" % (wit, len(chunk_push))
    res["witness_ok"] = all(x == "sat" for x in wit) and len(chunk_push) >= 1
    res["queries"], res["solver_s"] = q.n, round(q.secs, 2)
    if problems:
        return dict(res, verdict="counterexample", text="; ".join(problems), model={"problems": problems}, replay={"reproduced": False, "why": "no native replay"})
    return dict(res, verdict="holds")


def run(ob, tier):
    return {"data_rx": data_rx}[ob["which"]](ob, tier)
