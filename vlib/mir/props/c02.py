"""C02 — the end-of-stream decision table (engine M): which answer a stream gets when its
backend goes away, as a total function of (response started, response terminated,
keep-alive backend, request consumed)."""
import re

from .. import engine, solve
from ... import mirrun


class Q:
    def __init__(self, ctx):
        self.ctx, self.n, self.secs = ctx, 0, 0.0

    def __call__(self, asserts, get=()):
        v, model, s, detail = solve.check(self.ctx.script(asserts, get))
        self.n += 1
        self.secs += s
        return v, model, detail


def struct_field_names(path, struct):
    src = open(mirrun.REPO + "/" + path).read()
    m = re.search(r"pub struct %s \{(.*?)\n\}" % struct, src, re.S)
    return re.findall(r"^\s*(?:pub(?:\([\w:]+\))? )?(\w+):", m.group(1), re.M)


def retry_budget(ob, tier):
    """Router::connect: the per-stream attempt counter gates every backend connection: a
    connection is only attempted with attempts < CONN_RETRIES, the counter then grows by one
    and cannot wrap"""
    fn = mirrun.get_fn("lib", "::connect", sig="_1: &mut mux::router::Router")
    ex = engine.Executor(fn, loop_bound=lambda f, h: 2, max_nodes=200000)
    ev = ex.run()
    q = Q(ex.ctx)
    res = {"paths": ex.stats["nodes"], "functions": [fn.name]}
    limit = engine.NAMED_CONSTS.get("CONN_RETRIES")
    ws = [e for e in ev if e.kind == "write" and getattr(e, "sort", None) == 8]
    asserts = [e for e in ev if e.kind == "assert"]
    attempts = [e for e in ev if e.kind == "call" and re.search(r"::backend_from_request|::new_h[12]_client$|::start_stream", e.callee)]
    if limit is None or len(ws) != 1 or not attempts:
        return dict(res, verdict="inconclusive", why="CONN_RETRIES=%s, u8 writes=%d, attempt events=%d" % (limit, len(ws), len(attempts)))
    lim = ex.const(limit).term
    w = ws[0]
    before = ex.initial.get(w.place)
    if before is None:
        return dict(res, verdict="inconclusive", why="attempt counter never read before being written")
    problems = []
    v, _, d = q([w.guard, engine.NOT("(bvult %s %s)" % (before.term, lim))])
    if v != "unsat":
        problems.append("the attempt counter is advanced although the budget is exhausted (%s)" % v)
    v, _, d = q([w.guard, engine.NOT("(= %s (bvadd %s %s))" % (w.value, before.term, engine.bv(1, 8)))])
    if v != "unsat":
        problems.append("the attempt counter is not advanced by exactly one (%s)" % v)
    for a in asserts:
        v, _, d = q([a.guard])
        if v != "unsat":
            problems.append("the attempt counter can overflow (%s)" % v)
    # every backend connection attempt happens after the counter was checked and advanced
    for c in attempts:
        v, _, d = q([c.guard, engine.NOT(w.guard)])
        if v != "unsat":
            problems.append("%s is reachable without consuming a retry (%s)" % (c.callee.split("::")[-1][:30], v))
        v, _, d = q([c.guard, engine.NOT("(bvult %s %s)" % (before.term, lim))])
        if v != "unsat":
            problems.append("%s is reachable with an exhausted retry budget (%s)" % (c.callee.split("::")[-1][:30], v))
    wit = [q([c.guard])[0] for c in attempts[:3]] + [q([engine.NOT("(bvult %s %s)" % (before.term, lim)), [e for e in ev if e.kind == "return"][0].guard])[0]]
    res["witness"] = "CONN_RETRIES=%s; %d connection-attempt events; reachability %s" % (limit, len(attempts), wit)
    res["witness_ok"] = all(x == "sat" for x in wit)
    if problems:
        return dict(res, verdict="counterexample", text="; ".join(sorted(set(problems))), model={"problems": problems}, queries=q.n, solver_s=q.secs, replay={"reproduced": False, "why": "no native replay"})
    return dict(res, verdict="holds", queries=q.n, solver_s=round(q.secs, 2))


def run(ob, tier):
    if ob.get("which") == "retry":
        return retry_budget(ob, tier)
    return decision(ob, tier)


def decision(ob, tier):
    fn = mirrun.get_fn("lib", "end_stream_decision", sig="&stream::Stream")
    ex = engine.Executor(fn)
    ev = ex.run()
    q = Q(ex.ctx)
    res = {"paths": ex.stats["nodes"], "functions": [fn.name]}
    stream_f = struct_field_names("lib/src/protocol/mux/stream.rs", "Stream")
    ctx_f = struct_field_names("lib/src/protocol/kawa_h1/editor.rs", "HttpContext")
    main = [e for e in ev if e.kind == "call" and e.callee.endswith("::is_main_phase")]
    term = [e for e in ev if e.kind == "call" and e.callee.endswith("::is_terminated")]
    if len(main) != 1 or len(term) != 1:
        return dict(res, verdict="inconclusive", why="is_main_phase calls=%d is_terminated calls=%d" % (len(main), len(term)))
    problems = []
    for c, nm in ((main[0], "is_main_phase"), (term[0], "is_terminated")):
        m = re.match(r"^\(\*_1\)\.(\d+)$", c.args[0]["val"].ref or "")
        if not m or stream_f[int(m.group(1))] != "back":
            problems.append("%s is asked of stream.%s, not stream.back" % (nm, stream_f[int(m.group(1))] if m else c.args[0]["text"]))
    # the two bool fields
    keep = cons = None
    for k, v in ex.initial.items():
        m = re.match(r"^\(\*_1\)\.(\d+)\.(\d+)$", k)
        if not m or v.sort != "Bool":
            continue
        outer = stream_f[int(m.group(1))]
        if outer == "context" and ctx_f[int(m.group(2))] == "keep_alive_backend":
            keep = v.term
        elif outer == "front":
            cons = (v.term, int(m.group(2)))
    if keep is None or cons is None:
        return dict(res, verdict="inconclusive", why="keep_alive_backend / front.consumed reads not found (%s)" % list(ex.initial))
    # kawa::Kawa field #8 is `consumed` (external crate; checked against its source text)
    try:
        import glob
        ksrc = open(glob.glob("/root/.cargo/registry/src/*/kawa-0.6.8/src/storage/repr.rs")[0]).read()
        kf = re.findall(r"^\s*pub (\w+):", re.search(r"pub struct Kawa<T: AsBuffer> \{(.*?)\n\}", ksrc, re.S).group(1), re.M)
        if kf[cons[1]] != "consumed":
            problems.append("the request-side flag read is kawa.%s, not kawa.consumed" % kf[cons[1]])
    except Exception as e:  # pragma: no cover
        return dict(res, verdict="inconclusive", why="kawa source not readable: %s" % e)
    M, T, K, C = main[0].result.term, term[0].result.term, keep, cons[0]
    want = {
        "ForwardTerminated": engine.AND(M, T),
        "CloseDelimited": engine.AND(M, engine.NOT(T), engine.NOT(K)),
        "ForwardUnterminated": engine.AND(M, engine.NOT(T), K),
        "SendDefault(const 502_u16)": engine.AND(engine.NOT(M), C),
        "Reconnect": engine.AND(engine.NOT(M), engine.NOT(C)),
    }
    seen = {}
    for bb, blk in fn.blocks.items():
        for st in blk["stmts"]:
            m = re.match(r"^_0 = (?:[\w:]+::)?EndStreamAction::(.+)$", st)
            if m:
                seen.setdefault(m.group(1), []).append(ex.node_guard.get((bb, ())))
    wit = []
    for var, cond in want.items():
        gs = [g for g in seen.get(var, []) if g]
        if not gs:
            problems.append("no path yields %s" % var)
            continue
        g = engine.OR(*gs)
        # T is only meaningful on paths where is_terminated was evaluated (main true); the
        # guards already imply that, so the equivalence is checked under "all symbols free"
        v1, _, d = q([g, engine.NOT(cond)])
        v2, _, d = q([cond, engine.NOT(g)])
        wit.append(q([g])[0])
        if v1 != "unsat":
            problems.append("%s is chosen outside its documented condition (%s)" % (var, v1))
        if v2 != "unsat":
            problems.append("%s is not chosen although its condition holds (%s)" % (var, v2))
    extra = set(seen) - set(want)
    if extra:
        problems.append("unexpected decision variants %s (e.g. a status other than 502)" % sorted(extra))
    res["witness"] = "5 decision variants reachable: %s" % wit
    res["witness_ok"] = len(wit) == 5 and all(x == "sat" for x in wit)
    if problems:
        return dict(res, verdict="counterexample", text="; ".join(problems), model={"problems": problems}, queries=q.n, solver_s=q.secs, replay={"reproduced": False, "why": "no native replay"})
    return dict(res, verdict="holds", queries=q.n, solver_s=round(q.secs, 2))
