"""C02 — the end-of-stream decision table (engine M): which answer a stream gets when its
backend goes away, as a total function of (response started, response terminated,
keep-alive backend, request consumed)."""
import re

from .. import engine, solve
from ... import mirrun


class Q:
    def __init__(self, ctx):
        self.ctx, self.n, self.secs = ctx, 0, 0.0

    def __call__(self, asserts, get=()):
        v, model, s, detail = solve.check(self.ctx.script(asserts, get))
        self.n += 1
        self.secs += s
        return v, model, detail


def struct_field_names(path, struct):
    src = open(mirrun.REPO + "/" + path).read()
    m = re.search(r"pub struct %s \{(.*?)\n\}" % struct, src, re.S)
    return re.findall(r"^\s*(?:pub(?:\([\w:]+\))? )?(\w+):", m.group(1), re.M)


def retry_budget(ob, tier):
    """Router::connect: the per-stream attempt counter gates every backend connection: a
    connection is only attempted with attempts < CONN_RETRIES, the counter then grows by one
    and cannot wrap"""
    fn = mirrun.get_fn("lib", "::connect", sig="_1: &mut mux::router::Router")
    ex = engine.Executor(fn, loop_bound=lambda f, h: 2, max_nodes=200000)
    ev = ex.run()
    q = Q(ex.ctx)
    res = {"paths": ex.stats["nodes"], "functions": [fn.name]}
    limit = engine.NAMED_CONSTS.get("CONN_RETRIES")
    ws = [e for e in ev if e.kind == "write" and getattr(e, "sort", None) == 8]
    asserts = [e for e in ev if e.kind == "assert"]
    attempts = [e for e in ev if e.kind == "call" and re.search(r"::backend_from_request|::new_h[12]_client$|::start_stream", e.callee)]
    if limit is None or len(ws) != 1 or not attempts:
        return dict(res, verdict="inconclusive", why="CONN_RETRIES=%s, u8 writes=%d, attempt events=%d" % (limit, len(ws), len(attempts)))
    lim = ex.const(limit).term
    w = ws[0]
    before = ex.initial.get(w.place)
    if before is None:
        return dict(res, verdict="inconclusive", why="attempt counter never read before being written")
    problems = []
    v, _, d = q([w.guard, engine.NOT("(bvult %s %s)" % (before.term, lim))])
    if v != "unsat":
        problems.append("the attempt counter is advanced although the budget is exhausted (%s)" % v)
    v, _, d = q([w.guard, engine.NOT("(= %s (bvadd %s %s))" % (w.value, before.term, engine.bv(1, 8)))])
    if v != "unsat":
        problems.append("the attempt counter is not advanced by exactly one (%s)" % v)
    for a in asserts:
        v, _, d = q([a.guard])
        if v != "unsat":
            problems.append("the attempt counter can overflow (%s)" % v)
    # every backend connection attempt happens after the counter was checked and advanced
    for c in attempts:
        v, _, d = q([c.guard, engine.NOT(w.guard)])
        if v != "unsat":
            problems.append("%s is reachable without consuming a retry (%s)" % (c.callee.split("::")[-1][:30], v))
        v, _, d = q([c.guard, engine.NOT("(bvult %s %s)" % (before.term, lim))])
        if v != "unsat":
            problems.append("%s is reachable with an exhausted retry budget (%s)" % (c.callee.split("::")[-1][:30], v))
    wit = [q([c.guard])[0] for c in attempts[:3]] + [q([engine.NOT("(bvult %s %s)" % (before.term, lim)), [e for e in ev if e.kind == "return"][0].guard])[0]]
    res["witness"] = "CONN_RETRIES=%s; %d connection-attempt events; reachability %s" % (limit, len(attempts), wit)
    res["witness_ok"] = all(x == "sat" for x in wit)
    if problems:
        return dict(res, verdict="counterexample", text="; ".join(sorted(set(problems))), model={"problems": problems}, queries=q.n, solver_s=q.secs, replay={"reproduced": False, "why": "no native replay"})
    return dict(res, verdict="holds", queries=q.n, solver_s=round(q.secs, 2))


def kawa_field_index(name):
    import glob
    ksrc = open(glob.glob("/root/.cargo/registry/src/*/kawa-0.6.8/src/storage/repr.rs")[0]).read()
    kf = re.findall(r"^\s*pub (\w+):", re.search(r"pub struct Kawa<T: AsBuffer> \{(.*?)\n\}", ksrc, re.S).group(1), re.M)
    return kf.index(name)


def timeout_table(ob, tier):
    """Mux::timeout — which proxy-generated answer a stream gets when a timeout fires, as a
    function of the stream state and of `back.consumed` (has any response byte been relayed):
    408 only for an Idle stream, 503 for (and for every) Link stream, 504 exactly when the
    response has not started, forceful termination only once it has, never two answers for
    one stream, unlink before answering.  First iteration of each per-stream loop (the loop
    body is the same code for every stream; later iterations add nothing the first lacks)."""
    fn = mirrun.get_fn("lib", "::timeout", sig="&mut Mux<Front, L>")
    ex = engine.Executor(fn, loop_bound=lambda f, h: 1, max_nodes=200000)
    ev = ex.run()
    for i, e in enumerate(ev):
        e.seq = i
    q = Q(ex.ctx)
    res = {"paths": ex.stats["nodes"], "functions": [fn.name]}
    stream_f = struct_field_names("lib/src/protocol/mux/stream.rs", "Stream")
    back_i, state_i = stream_f.index("back"), stream_f.index("state")
    cons_i = kawa_field_index("consumed")
    ssrc = open(mirrun.REPO + "/lib/src/protocol/mux/stream.rs").read()
    states = re.findall(r"^\s*(\w+)(?:\(.*\))?,", re.sub(r"///.*", "", re.search(r"pub enum StreamState \{(.*?)\n\}", ssrc, re.S).group(1)), re.M)
    if states[:3] != ["Idle", "Link", "Linked"]:
        return dict(res, verdict="inconclusive", why="StreamState variants: %s" % states)
    def is_stream_ref(m):
        return m is not None and re.search(r"\bstream::Stream$", fn.locals.get(m.group(1), "")) is not None
    cons = [v.term for k, v in ex.initial.items() if is_stream_ref(re.match(r"^\(\*(_\d+)\)\.%d\.%d$" % (back_i, cons_i), k)) and v.sort == "Bool"]
    dsyms = [v.term for k, v in ex.initial.items() if is_stream_ref(re.match(r"^discr\(\(\*(_\d+)\)\.%d\)$" % state_i, k))]

    def first_iter(e):
        return e.kind == "call" and e.node[1] and all(i == 0 for _, i in e.node[1])
    groups = {}
    for e in ev:
        if first_iter(e):
            groups.setdefault(e.node[1][-1][0], []).append(e)
    problems, wit = [], []

    def status(e):
        m = re.match(r"const (\d+)_u16", e.args[2]["text"]) if len(e.args) > 2 else None
        return int(m.group(1)) if m else None
    seen_status = set()
    nb_groups = 0
    for header, g in sorted(groups.items()):
        ans = [e for e in g if re.search(r"(^|::)set_default_answer$", e.callee)]
        frc = [e for e in g if re.search(r"(^|::)forcefully_terminate_answer$", e.callee)]
        if not ans and not frc:
            continue
        nb_groups += 1
        unl = [e for e in g if e.callee.endswith("::unlink_stream")]
        idx = [e for e in g if re.search(r"Index<usize>>::index$", e.callee)]
        is_front = any(status(e) == 408 for e in ans)
        for e in ans:
            st = status(e)
            seen_status.add(st)
            if st not in (408, 503, 504):
                problems.append("a timeout answers with status %s" % st)
            if st == 504:
                if not any(q([e.guard, s])[0] == "unsat" for s in cons):
                    problems.append("504 can be sent on a timeout without back.consumed being false (response already started, or the flag is not consulted)")
                if not any(q([e.guard, engine.NOT(engine.OR(*[u.guard for u in unl if u.seq < e.seq]))])[0] == "unsat" for _ in [0]):
                    problems.append("504 is sent without unlinking the stream from its backend first")
            if is_front and dsyms:
                wantd = {408: 0, 503: 1, 504: 2}.get(st)
                if wantd is not None and not any(q([e.guard, engine.NOT("(= %s %s)" % (d, engine.bv(wantd, 64)))])[0] == "unsat" for d in dsyms):
                    problems.append("%s is sent for a stream that is not %s" % (st, states[wantd]))
            wit.append(q([e.guard])[0])
        for e in frc:
            if not any(q([e.guard, engine.NOT(s)])[0] == "unsat" for s in cons):
                problems.append("a response is forcefully terminated on a timeout without back.consumed being true")
            if q([e.guard, engine.NOT(engine.OR(*[u.guard for u in unl if u.seq < e.seq]))])[0] != "unsat":
                problems.append("forceful termination without unlinking the stream first")
            wit.append(q([e.guard])[0])
        both = ans + frc
        for i in range(len(both)):
            for j in range(i + 1, len(both)):
                if q([both[i].guard, both[j].guard])[0] != "unsat":
                    problems.append("one stream can get two answers from one timeout")
        if not idx:
            problems.append("loop at %s: no stream lookup found" % header)
            continue
        it = idx[0].guard
        if is_front and dsyms:
            d = dsyms[0]
            g503 = engine.OR(*[e.guard for e in ans if status(e) == 503]) if any(status(e) == 503 for e in ans) else "false"
            if q([it, "(= %s %s)" % (d, engine.bv(1, 64)), engine.NOT(g503)])[0] != "unsat":
                problems.append("a Link stream is not answered 503 on a frontend timeout")
            g504 = engine.OR(*[e.guard for e in ans if status(e) == 504]) if any(status(e) == 504 for e in ans) else "false"
            if not any(q([it, "(= %s %s)" % (d, engine.bv(2, 64)), engine.NOT(s), engine.NOT(g504)])[0] == "unsat" for s in cons):
                problems.append("a Linked stream whose response has not started is not answered 504 on a frontend timeout")
        else:
            # backend arm: terminated / error => wait; otherwise exactly 504 (not started) or forceful termination
            term = [e for e in g if e.callee.endswith("::is_terminated")]
            err = [e for e in g if e.callee.endswith("::is_error")]
            ends = [e for e in g if re.search(r"::end_stream(::<.*>)?$", e.callee)]
            if len(term) != 1 or len(err) != 1 or len(ends) != 1:
                problems.append("backend-timeout loop shape: is_terminated=%d is_error=%d end_stream=%d" % (len(term), len(err), len(ends)))
                continue
            T, E = term[0].result.term, err[0].result.term
            some = engine.OR(*[e.guard for e in both])
            if q([ends[0].guard, engine.NOT(T), engine.NOT(E), engine.NOT(some)])[0] != "unsat":
                problems.append("a stream whose response is neither terminated nor in error gets no answer on a backend timeout")
            if q([some, engine.OR(T, engine.AND(err[0].guard, E))])[0] != "unsat":
                problems.append("a terminated / errored response is answered again on a backend timeout")
            if q([it, engine.NOT(ends[0].guard)])[0] != "unsat":
                problems.append("a stream linked to the timed-out backend is not ended")
            g504 = engine.OR(*[e.guard for e in ans if status(e) == 504]) if ans else "false"
            if not any(q([ends[0].guard, engine.NOT(T), engine.NOT(E), engine.NOT(s), engine.NOT(g504)])[0] == "unsat" for s in cons):
                problems.append("a stream still waiting for its response is not answered 504 on a backend timeout")
    if nb_groups != 2:
        problems.append("expected a frontend and a backend per-stream loop with answers, found %d" % nb_groups)
    # Unlinked stream (its backend is gone, the response is being flushed): the session is kept
    # open exactly while the response is not completely written (`!back.is_completed()`); an
    # aborted response (Error phase: completed, never "terminated") must let the session close
    sc = fn.debug.get("should_close")
    if sc and dsyms and "Unlinked" in states:
        unl = "(= %s %s)" % (dsyms[0], engine.bv(states.index("Unlinked"), 64))
        comp = [e for e in ev if first_iter(e) and e.callee.endswith("::is_completed") and e.result is not None]
        mine = [c for c in comp if q([c.guard, engine.NOT(unl)])[0] == "unsat"]
        if not mine:
            problems.append("an Unlinked stream's keep-the-session-open decision does not ask back.is_completed() (an aborted response, completed but never terminated, would keep the client connection open for ever)")
        else:
            hdr = mine[0].node[1][-1][0]
            second = [e.guard for e in ev if e.kind == "call" and e.node[1] and e.node[1][-1] == (hdr, 1) and e.node[0] != hdr]
            after = [e for e in ev if e.kind == "call" and not e.node[1] and e.seq > mine[0].seq and sc in e.env and e.env[sc].sort == "Bool"]
            one_stream = [mine[0].guard] + [engine.NOT(g) for g in second[:1]]
            tail = [e for e in after if q([e.guard] + one_stream)[0] == "sat"]
            if not tail:
                problems.append("shape: no event after the per-stream loop of the frontend timeout")
            elif q([tail[0].guard] + one_stream + [engine.NOT("(= %s %s)" % (tail[0].env[sc].term, mine[0].result.term))])[0] != "unsat":
                problems.append("after a single Unlinked stream, should_close is not `back.is_completed()`")
    res["witness"] = "answer sites reachable: %s; statuses %s; %d consumed reads" % (wit, sorted(x for x in seen_status if x), len(cons))
    res["witness_ok"] = bool(wit) and all(x == "sat" for x in wit) and len(cons) >= 1
    if problems:
        return dict(res, verdict="counterexample", text="; ".join(sorted(set(problems))), model={"problems": problems}, queries=q.n, solver_s=q.secs, replay={"reproduced": False, "why": "no native replay"})
    return dict(res, verdict="holds", queries=q.n, solver_s=round(q.secs, 2))


def run(ob, tier):
    if ob.get("which") == "retry":
        return retry_budget(ob, tier)
    if ob.get("which") == "timeout":
        return timeout_table(ob, tier)
    return decision(ob, tier)


def decision(ob, tier):
    fn = mirrun.get_fn("lib", "end_stream_decision", sig="&stream::Stream")
    ex = engine.Executor(fn)
    ev = ex.run()
    q = Q(ex.ctx)
    res = {"paths": ex.stats["nodes"], "functions": [fn.name]}
    stream_f = struct_field_names("lib/src/protocol/mux/stream.rs", "Stream")
    ctx_f = struct_field_names("lib/src/protocol/kawa_h1/editor.rs", "HttpContext")
    main = [e for e in ev if e.kind == "call" and e.callee.endswith("::is_main_phase")]
    term = [e for e in ev if e.kind == "call" and e.callee.endswith("::is_terminated")]
    if len(main) != 1 or len(term) != 1:
        return dict(res, verdict="inconclusive", why="is_main_phase calls=%d is_terminated calls=%d" % (len(main), len(term)))
    problems = []
    for c, nm in ((main[0], "is_main_phase"), (term[0], "is_terminated")):
        m = re.match(r"^\(\*_1\)\.(\d+)$", c.args[0]["val"].ref or "")
        if not m or stream_f[int(m.group(1))] != "back":
            problems.append("%s is asked of stream.%s, not stream.back" % (nm, stream_f[int(m.group(1))] if m else c.args[0]["text"]))
    # the two bool fields
    keep = cons = None
    for k, v in ex.initial.items():
        m = re.match(r"^\(\*_1\)\.(\d+)\.(\d+)$", k)
        if not m or v.sort != "Bool":
            continue
        outer = stream_f[int(m.group(1))]
        if outer == "context" and ctx_f[int(m.group(2))] == "keep_alive_backend":
            keep = v.term
        elif outer == "front":
            cons = (v.term, int(m.group(2)))
    # a flag the function never reads is a free symbol: the documented table then cannot be
    # a function of what the code looked at, and the solver says so below
    if keep is None:
        keep = ex.ctx.sym("unread.context.keep_alive_backend", "Bool")
        problems.append("the decision never reads stream.context.keep_alive_backend")
    if cons is None:
        problems.append("the decision never reads stream.front.consumed")
    # kawa::Kawa field #8 is `consumed` (external crate; checked against its source text)
    try:
        import glob
        if cons is None:
            raise LookupError
        ksrc = open(glob.glob("/root/.cargo/registry/src/*/kawa-0.6.8/src/storage/repr.rs")[0]).read()
        kf = re.findall(r"^\s*pub (\w+):", re.search(r"pub struct Kawa<T: AsBuffer> \{(.*?)\n\}", ksrc, re.S).group(1), re.M)
        if kf[cons[1]] != "consumed":
            problems.append("the request-side flag read is kawa.%s, not kawa.consumed" % kf[cons[1]])
    except LookupError:
        cons = (ex.ctx.sym("unread.front.consumed", "Bool"), -1)
    except Exception as e:  # pragma: no cover
        return dict(res, verdict="inconclusive", why="kawa source not readable: %s" % e)
    M, T, K, C = main[0].result.term, term[0].result.term, keep, cons[0]
    want = {
        "ForwardTerminated": engine.AND(M, T),
        "CloseDelimited": engine.AND(M, engine.NOT(T), engine.NOT(K)),
        "ForwardUnterminated": engine.AND(M, engine.NOT(T), K),
        "SendDefault(const 502_u16)": engine.AND(engine.NOT(M), C),
        "Reconnect": engine.AND(engine.NOT(M), engine.NOT(C)),
    }
    seen = {}
    for bb, blk in fn.blocks.items():
        for st in blk["stmts"]:
            m = re.match(r"^_0 = (?:[\w:]+::)?EndStreamAction::(.+)$", st)
            if m:
                seen.setdefault(m.group(1), []).append(ex.node_guard.get((bb, ())))
    wit = []
    for var, cond in want.items():
        gs = [g for g in seen.get(var, []) if g]
        if not gs:
            problems.append("no path yields %s" % var)
            continue
        g = engine.OR(*gs)
        # T is only meaningful on paths where is_terminated was evaluated (main true); the
        # guards already imply that, so the equivalence is checked under "all symbols free"
        v1, _, d = q([g, engine.NOT(cond)])
        v2, _, d = q([cond, engine.NOT(g)])
        wit.append(q([g])[0])
        if v1 != "unsat":
            problems.append("%s is chosen outside its documented condition (%s)" % (var, v1))
        if v2 != "unsat":
            problems.append("%s is not chosen although its condition holds (%s)" % (var, v2))
    extra = set(seen) - set(want)
    if extra:
        problems.append("unexpected decision variants %s (e.g. a status other than 502)" % sorted(extra))
    res["witness"] = "5 decision variants reachable: %s" % wit
    res["witness_ok"] = len(wit) == 5 and all(x == "sat" for x in wit)
    if problems:
        return dict(res, verdict="counterexample", text="; ".join(problems), model={"problems": problems}, queries=q.n, solver_s=q.secs, replay={"reproduced": False, "why": "no native replay"})
    return dict(res, verdict="holds", queries=q.n, solver_s=round(q.secs, 2))
