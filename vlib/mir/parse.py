"""Parser for rustc's `-Zunpretty=mir` text: functions, locals, basic blocks, statements and
terminators, places and operands.  Anything it does not recognise is kept as raw text and
flagged, so that the executor can refuse it (inconclusive) instead of guessing."""
import re

NOOP_STMT = re.compile(
    r"^(StorageLive|StorageDead|FakeRead|PlaceMention|AscribeUserType|Retag|Coverage|"
    r"ConstEvalCounter|nop|BackwardIncompatibleDropHint|Deinit)\b")


def split_top(s, sep, maxsplit=-1):
    """split on `sep` at bracket depth 0 (brackets: () [] {} <> with -> and => handled)"""
    out, depth, i, start, n = [], 0, 0, 0, len(sep)
    in_str = False
    while i < len(s):
        c = s[i]
        if in_str:
            if c == "\\":
                i += 2
                continue
            if c == '"':
                in_str = False
            i += 1
            continue
        if c == '"':
            in_str = True
        elif c in "([{":
            depth += 1
        elif c in ")]}":
            depth -= 1
        elif c == "<" and not s.startswith("<=", i) and (i == 0 or s[i - 1] not in " ") :
            depth += 1
        elif c == ">" and i > 0 and s[i - 1] not in "-=" and depth > 0 and _angle_open(s, i):
            depth -= 1
        if depth == 0 and s.startswith(sep, i) and (maxsplit < 0 or len(out) < maxsplit):
            out.append(s[start:i])
            i += n
            start = i
            continue
        i += 1
    out.append(s[start:])
    return out


def _angle_open(s, i):
    # a '>' closes a generic bracket only if there is an unmatched '<' before it at the
    # same paren level; cheap scan backwards
    depth = 0
    j = i - 1
    while j >= 0:
        c = s[j]
        if c in ")]}":
            depth += 1
        elif c in "([{":
            if depth == 0:
                return False
            depth -= 1
        elif c == "<" and depth == 0 and not s.startswith("<=", j):
            return True
        j -= 1
    return False


def matching_paren(s, i):
    """index of the ')' matching the '(' at s[i]"""
    depth = 0
    in_str = False
    j = i
    while j < len(s):
        c = s[j]
        if in_str:
            if c == "\\":
                j += 2
                continue
            if c == '"':
                in_str = False
        elif c == '"':
            in_str = True
        elif c == "(":
            depth += 1
        elif c == ")":
            depth -= 1
            if depth == 0:
                return j
        j += 1
    return -1


LOCAL = re.compile(r"^_\d+$")


def parse_place(s):
    """-> (canonical place string, type or None).  Canonical form drops type ascriptions:
    ((*_2).4: Option<u32>) -> (*_2).4 ; (((*_2).4: Option<u32>) as Some).0 -> ((*_2).4 as Some).0"""
    s = s.strip()
    if LOCAL.match(s):
        return s, None
    if s.startswith("(") and matching_paren(s, 0) == len(s) - 1:
        inner = s[1:-1].strip()
        if inner.startswith("*"):
            c, _ = parse_place(inner[1:])
            return "(*%s)" % c, None
        parts = split_top(inner, ": ", 1)
        if len(parts) == 2 and not parts[0].rstrip().endswith(" as"):
            left, ty = parts
            # left = PLACE.N
            k = left.rfind(".")
            base, field = left[:k], left[k + 1:]
            c, _ = parse_place(base)
            return "%s.%s" % (c, field), ty.strip()
        parts = split_top(inner, " as ", 1)
        if len(parts) == 2:
            c, _ = parse_place(parts[0])
            return "(%s as %s)" % (c, parts[1].strip()), None
        return parse_place(inner)
    m = re.match(r"^(.*)\[(.*)\]$", s)
    if m:
        c, _ = parse_place(m.group(1))
        return "%s[%s]" % (c, m.group(2).strip()), None
    return s, None


class Fn:
    def __init__(self, name, sig):
        self.name = name
        self.sig = sig
        self.args = []       # [(local, type)]
        self.ret_type = None
        self.locals = {}     # local -> type
        self.debug = {}      # source name -> place
        self.blocks = {}     # bb -> {"stmts": [...], "term": str, "cleanup": bool}
        self.order = []


FN_RE = re.compile(r"^fn (.+?)\((.*)\) -> (.+?) \{$|^fn (.+?)\((.*)\) \{$")


def index_functions(path):
    """one pass over the dump: name -> (start line, end line)"""
    idx = {}
    start = None
    name = None
    with open(path, errors="replace") as f:
        for ln, line in enumerate(f):
            if line.startswith("fn "):
                start = ln
                head = line.rstrip("\n")
                # the name ends at the '(' that opens the argument list, i.e. the first '('
                # followed by `_1:` or `)` — impl labels contain no parentheses
                name = line[3:line.index("(")] if "(" in line else line[3:].strip()
            elif line.startswith("}") and start is not None:
                idx.setdefault(name, []).append((start, ln, head))
                start = None
    return idx


def load_function(path, start, end):
    lines = []
    with open(path, errors="replace") as f:
        for ln, line in enumerate(f):
            if ln < start:
                continue
            if ln > end:
                break
            lines.append(line.rstrip("\n"))
    return parse_function(lines)


def parse_function(lines):
    head = lines[0]
    i = head.index("(")
    j = matching_paren(head, i)
    name, args = head[3:i], head[i + 1:j]
    rest = head[j + 1:].strip()
    ret = rest[3:-1].strip() if rest.startswith("->") else None
    fn = Fn(name, head)
    fn.ret_type = ret
    for a in split_top(args, ", "):
        a = a.strip()
        if not a:
            continue
        k = a.index(":")
        loc, ty = a[:k].strip(), a[k + 1:].strip()
        fn.args.append((loc, ty))
        fn.locals[loc] = ty
    cur = None
    for raw in lines[1:]:
        line = raw.strip()
        if not line or line.startswith("//"):
            continue
        m = re.match(r"^let (?:mut )?(_\d+): (.+);$", line)
        if m:
            fn.locals[m.group(1)] = m.group(2)
            continue
        m = re.match(r"^debug (.+?) => (.+);$", line)
        if m:
            fn.debug.setdefault(m.group(1), m.group(2))
            continue
        m = re.match(r"^(bb\d+)( \(cleanup\))?: \{$", line)
        if m:
            cur = m.group(1)
            fn.blocks[cur] = {"stmts": [], "term": None, "cleanup": bool(m.group(2))}
            fn.order.append(cur)
            continue
        if line.startswith("scope ") or line == "}":
            if line == "}" and cur is not None:
                cur = None
            continue
        if cur is None:
            continue
        # strip trailing comment
        stmt = line
        if stmt.endswith(";"):
            stmt = stmt[:-1]
        fn.blocks[cur]["stmts"].append(stmt)
    # the last statement of each block is its terminator
    for bb, b in fn.blocks.items():
        if b["stmts"]:
            b["term"] = b["stmts"].pop()
    return fn


TERM_TARGETS = re.compile(r"-> \[(.*)\]$")


def _targets(tg):
    out = {}
    for x in tg.split(", "):
        if ": " in x:
            k, v = x.split(": ", 1)
            out[k] = v
    return out


def parse_terminator(t):
    """-> dict(kind=..., ...)"""
    t = t.strip()
    if t == "return":
        return {"kind": "return"}
    if t in ("unreachable", "resume", "abort") or t.startswith("resume") or t.startswith("terminate"):
        return {"kind": "unreachable" if t == "unreachable" else "diverge"}
    m = re.match(r"^goto -> (bb\d+)$", t)
    if m:
        return {"kind": "goto", "target": m.group(1)}
    if t.startswith("switchInt("):
        j = matching_paren(t, len("switchInt"))
        op = t[len("switchInt("):j]
        tg = TERM_TARGETS.search(t).group(1)
        arms = []
        otherwise = None
        for a in tg.split(", "):
            k, v = a.split(": ")
            if k == "otherwise":
                otherwise = v
            else:
                arms.append((k, v))
        return {"kind": "switch", "op": op, "arms": arms, "otherwise": otherwise}
    if t.startswith("drop("):
        j = matching_paren(t, len("drop"))
        tg = TERM_TARGETS.search(t).group(1)
        tm = _targets(tg)
        return {"kind": "drop", "place": t[5:j], "target": tm.get("return")}
    if t.startswith("assert("):
        j = matching_paren(t, len("assert"))
        inner = t[len("assert("):j]
        parts = split_top(inner, ", ", 1)
        cond = parts[0].strip()
        msg = parts[1] if len(parts) > 1 else ""
        tg = TERM_TARGETS.search(t).group(1)
        tm = _targets(tg)
        return {"kind": "assert", "cond": cond, "msg": msg, "target": tm.get("success")}
    if t.startswith("falseEdge") or t.startswith("falseUnwind"):
        m = re.search(r"(bb\d+)", t)
        return {"kind": "goto", "target": m.group(1)}
    # call:  DEST = callee(args) -> [return: bbN, unwind ...]   |  callee(args) -> ...
    m = TERM_TARGETS.search(t)
    if m or t.endswith("-> unwind continue") or " -> " in t:
        body = t
        target = None
        if m:
            body = t[:m.start()].rstrip()
            tm = {}
            for x in m.group(1).split(", "):
                if ": " in x:
                    k, v = x.split(": ", 1)
                    tm[k] = v
            target = tm.get("return")
        else:
            body = t[:t.rindex(" -> ")]
        dest = None
        parts = split_top(body, " = ", 1)
        if len(parts) == 2:
            dest, body = parts[0].strip(), parts[1].strip()
        # callee(args): the argument list is the last balanced (...) group
        if not body.endswith(")"):
            return {"kind": "unknown", "text": t}
        depth = 0
        k = len(body) - 1
        while k >= 0:
            if body[k] == ")":
                depth += 1
            elif body[k] == "(":
                depth -= 1
                if depth == 0:
                    break
            k -= 1
        callee = body[:k].strip()
        args = [a.strip() for a in split_top(body[k + 1:-1], ", ") if a.strip()]
        return {"kind": "call", "dest": dest, "callee": callee, "args": args, "target": target}
    return {"kind": "unknown", "text": t}
