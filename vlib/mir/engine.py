"""Engine M: symbolic execution of rustc MIR (text dump) into SMT-LIB2.

* one function at a time; loops unrolled to a stated bound (an edge beyond the bound is an
  `unwind` event — the property decides whether that is an obligation or an assumption);
* integer / bool places are bit-vectors / Bool; every other place is an opaque handle whose
  enum discriminant and projected fields are tracked symbolically when known;
* every call that has no exact model is an *uninterpreted call event*: fresh result, the
  objects reachable through `&mut` arguments are havocked, and the event
  (callee, argument terms, path guard) is recorded for the property to quantify over;
* every store through a reference (`(*_n).field = ..`) is a *write event*;
* states are merged at join points (guards + ite), so the number of solver terms is linear
  in the size of the unrolled CFG, not in the number of paths.

Anything unsupported raises Unsupported -> the obligation is inconclusive, never a pass.
"""
import re

from .parse import (NOOP_STMT, matching_paren, parse_place, parse_terminator, split_top)


class Unsupported(Exception):
    pass


INT_W = {"u8": 8, "i8": 8, "u16": 16, "i16": 16, "u32": 32, "i32": 32, "u64": 64, "i64": 64,
         "usize": 64, "isize": 64, "u128": 128, "i128": 128, "char": 32}


def sort_of_type(ty):
    """-> 'Bool' | int width | None (non-scalar)"""
    if ty is None:
        return None
    ty = ty.strip()
    if ty == "bool":
        return "Bool"
    if ty in INT_W:
        return INT_W[ty]
    return None


def is_signed(ty):
    return ty is not None and ty.strip() in ("i8", "i16", "i32", "i64", "isize", "i128")


def smt_sort(s):
    return "Bool" if s == "Bool" else "(_ BitVec %d)" % s


def bv(val, w):
    return "(_ bv%d %d)" % (val % (1 << w), w)


class Ctx:
    """SMT script under construction"""

    def __init__(self):
        self.decls = []      # (name, sort)
        self.defs = []       # (name, sort, expr)
        self.names = {}
        self.n = 0

    def sym(self, hint, sort):
        hint = re.sub(r"[^A-Za-z0-9_!.*@-]", "_", hint)[:60]
        k = self.names.get(hint, 0)
        self.names[hint] = k + 1
        name = "%s!%d" % (hint, k) if k else hint
        name = "|%s|" % name
        self.decls.append((name, sort))
        return name

    def define(self, hint, sort, expr):
        if re.match(r"^(\|[^|]*\||true|false|\(_ bv\d+ \d+\))$", expr):
            return expr
        self.n += 1
        name = "|d%d.%s|" % (self.n, re.sub(r"[^A-Za-z0-9_!.*-]", "_", hint)[:30])
        self.defs.append((name, sort, expr))
        return name

    def script(self, asserts, get=()):
        out = ["(set-logic ALL)", "(set-option :produce-models true)"]
        for n, s in self.decls:
            out.append("(declare-const %s %s)" % (n, smt_sort(s)))
        # definitions as constrained constants, not define-fun macros: cvc5 expands macros
        # at parse time, which turns the shared DAG into a tree (measured: timeout vs 1 s)
        for n, s, e in self.defs:
            out.append("(declare-const %s %s)" % (n, smt_sort(s)))
            out.append("(assert (= %s %s))" % (n, e))
        for a in asserts:
            out.append("(assert %s)" % a)
        out.append("(check-sat)")
        if get:
            out.append("(get-value (%s))" % " ".join(get))
        return "\n".join(out) + "\n"


def AND(*xs):
    xs = [x for x in xs if x != "true"]
    if any(x == "false" for x in xs):
        return "false"
    if not xs:
        return "true"
    if len(xs) == 1:
        return xs[0]
    return "(and %s)" % " ".join(xs)


def OR(*xs):
    xs = [x for x in xs if x != "false"]
    if any(x == "true" for x in xs):
        return "true"
    if not xs:
        return "false"
    if len(xs) == 1:
        return xs[0]
    return "(or %s)" % " ".join(xs)


def NOT(x):
    if x == "true":
        return "false"
    if x == "false":
        return "true"
    return "(not %s)" % x


class Val:
    """value of a place: scalar term, reference, or opaque with optional structure"""
    __slots__ = ("term", "sort", "ref", "mut", "alts")

    def __init__(self, term=None, sort=None, ref=None, mut=False):
        self.term, self.sort, self.ref, self.mut = term, sort, ref, mut
        self.alts = ()

    def __repr__(self):
        return "Val(%s,%s,ref=%s)" % (self.term, self.sort, self.ref)


def sub_of(key, place):
    """is `key` a sub-place / discriminant / deref of `place`?"""
    if key == place:
        return False
    i = key.find(place)
    while i >= 0:
        j = i + len(place)
        before_ok = i == 0 or key[i - 1] in "(* "
        after = key[j:j + 1]
        if before_ok and (after in (".", ")", " ", "[") or key.startswith(" as ", j)):
            return True
        i = key.find(place, i + 1)
    return False


class Event:
    def __init__(self, kind, guard, node, **kw):
        self.kind, self.guard, self.node = kind, guard, node
        self.__dict__.update(kw)

    def __repr__(self):
        return "Event(%s @%s %s)" % (self.kind, self.node, {k: v for k, v in self.__dict__.items() if k not in ("kind", "guard", "node")})


NAMED_CONSTS = {}   # last path segment -> literal text (filled from the dump by mirrun)
NAMED_CONSTS_ALL = {}  # last path segment -> every literal seen under that name (types may differ)
ENUM_VARIANTS = {}  # (enum name, unit variant) -> discriminant, registered by property modules from the source text


def register_enum(path, name):
    """fieldless enum `name` declared in file `path`: variants in declaration order"""
    src = open(path).read()
    m = re.search(r"pub enum %s \{(.*?)\n\}" % name, src, re.S)
    body = re.sub(r"//.*", "", m.group(1))
    vs = re.findall(r"^\s*(\w+)\s*(?:=\s*(\d+))?,", body, re.M)
    nxt = 0
    out = []
    for v, d in vs:
        if d:
            nxt = int(d)
        ENUM_VARIANTS[(name, v)] = nxt
        out.append(v)
        nxt += 1
    return out


class Executor:
    def __init__(self, fn, ctx=None, loop_bound=None, models=None, max_nodes=60000, named_consts=None,
                 inline=None, initial=None, depth=0):
        """inline: optional callable(callee_text) -> Fn | None.  A call whose first argument is
        the function's own `self` and for which it returns a (small, loop-free) function is
        executed in place of being an uninterpreted event, so that a store moved into a private
        helper of the same type is still seen (behaviour-preserving 'extract method')."""
        self.fn = fn
        self.inline = inline
        self.depth = depth
        self.entry = ("true", {})
        self.named_consts = named_consts if named_consts is not None else NAMED_CONSTS
        self.ctx = ctx or Ctx()
        self.loop_bound = loop_bound or (lambda fn, header: 2)
        self.models = models or []
        self.events = []
        self.max_nodes = max_nodes
        self.ret_events = []
        self.initial = initial if initial is not None else {}    # place / discr(place) -> Val at function entry (path independent)
        self.stats = {"nodes": 0, "stmts": 0, "calls": 0}

    # ------------------------------------------------------------ CFG + unrolling
    def succs(self, bb):
        t = parse_terminator(self.fn.blocks[bb]["term"] or "unreachable")
        k = t["kind"]
        if k == "goto":
            return [t["target"]]
        if k == "switch":
            out = [v for _, v in t["arms"]]
            if t["otherwise"]:
                out.append(t["otherwise"])
            return out
        if k in ("drop", "assert", "call"):
            return [t["target"]] if t.get("target") else []
        if k == "unknown":
            raise Unsupported("terminator: %s" % t["text"])
        return []

    def analyse_loops(self):
        fn = self.fn
        color, back = {}, []
        order = []
        stack = [("bb0", iter(self.succs("bb0")))]
        color["bb0"] = 1
        while stack:
            u, it = stack[-1]
            adv = False
            for v in it:
                if fn.blocks[v]["cleanup"]:
                    continue
                if color.get(v, 0) == 0:
                    color[v] = 1
                    stack.append((v, iter(self.succs(v))))
                    adv = True
                    break
                if color[v] == 1:
                    back.append((u, v))
            if not adv:
                color[u] = 2
                order.append(u)
                stack.pop()
        self.reach = set(color)
        preds = {}
        for u in self.reach:
            for v in self.succs(u):
                if v in self.reach:
                    preds.setdefault(v, []).append(u)
        self.back = set(back)
        self.loops = {}
        for u, h in back:
            body = self.loops.setdefault(h, {h})
            work = [u]
            while work:
                x = work.pop()
                if x in body:
                    continue
                body.add(x)
                work.extend(preds.get(x, []))
        # nesting order: outer loops first (bigger bodies first)
        self.loop_order = sorted(self.loops, key=lambda h: -len(self.loops[h]))
        self.bounds = {h: self.loop_bound(fn, h) for h in self.loops}

    def expand(self):
        """unrolled DAG: node = (bb, ((header, iter), ...))"""
        self.analyse_loops()
        start = ("bb0", ())
        edges = {}
        seen = {start}
        work = [start]
        while work:
            node = work.pop()
            bb, lc = node
            out = []
            for v in self.succs(bb):
                if self.fn.blocks[v]["cleanup"]:
                    continue
                lcd = dict(lc)
                # leave loops that do not contain v
                for h in list(lcd):
                    if v not in self.loops[h]:
                        del lcd[h]
                limit = False
                if (bb, v) in self.back:
                    it = lcd.get(v, 0) + 1
                    if it > self.bounds[v]:
                        limit = True
                    lcd[v] = it
                elif v in self.loops and v not in lcd:
                    lcd[v] = 0
                if limit:
                    out.append((None, v))
                    continue
                nn = (v, tuple((h, lcd[h]) for h in self.loop_order if h in lcd))
                out.append((nn, v))
                if nn not in seen:
                    seen.add(nn)
                    work.append(nn)
                    if len(seen) > self.max_nodes:
                        raise Unsupported("unrolled CFG exceeds %d nodes" % self.max_nodes)
            edges[node] = out
        self.edges = edges
        # topological order (iterative DFS)
        order, state = [], {}
        stack = [(start, 0)]
        while stack:
            n, i = stack.pop()
            if i == 0:
                if state.get(n):
                    continue
                state[n] = 1
            succ = [x for x, _ in edges.get(n, []) if x is not None]
            if i < len(succ):
                stack.append((n, i + 1))
                if not state.get(succ[i]):
                    stack.append((succ[i], 0))
            else:
                state[n] = 2
                order.append(n)
        order.reverse()
        self.topo = order
        return order

    # ------------------------------------------------------------ values
    def type_of_local(self, loc):
        return self.fn.locals.get(loc)

    def canon(self, env, place_text):
        c, ty = parse_place(place_text)
        return self.resolve(env, c), ty

    def resolve(self, env, c):
        """replace (*_n) by the referent when _n is a known reference"""
        for _ in range(8):
            m = re.search(r"\(\*(_\d+)\)", c)
            if not m:
                break
            changed = False
            for mm in re.finditer(r"\(\*(_\d+)\)", c):
                v = env.get(mm.group(1))
                if v is not None and v.ref is not None:
                    c = c[:mm.start()] + v.ref + c[mm.end():]
                    changed = True
                    break
            if not changed:
                break
        return c

    def place_type(self, c, ty):
        if ty:
            return ty
        if re.match(r"^_\d+$", c):
            return self.type_of_local(c)
        m = re.match(r"^\(\*(_\d+)\)$", c)
        if m:
            t = self.type_of_local(m.group(1)) or ""
            t = re.sub(r"^&('\w+ )?(mut )?", "", t.strip())
            return t
        return None

    def read(self, env, c, ty):
        """scalar read of canonical place c"""
        v = env.get(c)
        if v is not None and v.term is not None:
            return v
        ac = self.alias_resolve(env, c)
        v = self.initial.get(ac)
        if v is None:
            sort = sort_of_type(self.place_type(c, ty))
            if sort is None:
                sort = 64  # opaque handle
            v = Val(self.ctx.sym("in." + ac, sort), sort)
            self.initial[ac] = v
        env[c] = v
        return v

    def alias_resolve(self, env, c):
        """place whose entry value c still denotes (after whole-aggregate copies / moves)"""
        for _ in range(6):
            hit = None
            for k, a in env.items():
                if k.startswith("alias(") and a.ref is not None:
                    p = k[6:-1]
                    if sub_of(c, p):
                        hit = (p, a.ref)
                        break
            if hit is None:
                return c
            c = c.replace(hit[0], hit[1], 1)
        return c

    def read_discr(self, env, c):
        k = "discr(%s)" % c
        v = env.get(k)
        if v is None:
            ak = "discr(%s)" % self.alias_resolve(env, c + ".@")[:-2]
            v = self.initial.get(ak)
            if v is None:
                v = Val(self.ctx.sym("discr." + ak[6:-1], 64), 64)
                self.initial[ak] = v
            env[k] = v
        return v

    def kill(self, env, c):
        for k in [k for k in env if sub_of(k, c) or (k.startswith("alias(") and (k[6:-1] == c or sub_of(c, k[6:-1])))]:
            del env[k]
        # entry values below c are no longer valid on this path: shadow them with havoc
        for k, v0 in self.initial.items():
            if k not in env and (sub_of(k, c)):
                env[k] = Val(self.ctx.sym("hv." + k, v0.sort), v0.sort)

    def copy_tree(self, env, src, dst):
        """structural copy of everything known below src to dst"""
        add = {}
        for k, v in env.items():
            if sub_of(k, src):
                add[k.replace(src, dst)] = v
        self.kill(env, dst)
        env.update(add)

    def const(self, text, ty_hint=None):
        t = text.strip()
        if t in ("true", "false"):
            return Val(t, "Bool")
        m = re.match(r"^(-?\d+)_(u8|i8|u16|i16|u32|i32|u64|i64|usize|isize|u128|i128)$", t)
        if m:
            w = INT_W[m.group(2)]
            return Val(bv(int(m.group(1)), w), w)
        m = re.match(r"^'(.)'$", t)
        if m:
            return Val(bv(ord(m.group(1)), 32), 32)
        return None

    def operand(self, env, text):
        """-> Val (scalar) ; non-scalar places give an opaque Val carrying .ref = None and a
        'place' attribute through the returned tuple"""
        text = text.strip()
        if text.startswith("no_retag "):
            text = text[len("no_retag "):]
        if text.startswith("const "):
            c = self.const(text[6:])
            if c is None:
                name = text[6:].strip().split("::")[-1]
                lit = self.named_consts.get(name)
                if lit is not None:
                    c = self.const(lit)
                    if c is not None:
                        # same-named constants of other modules / crates (different types)
                        c.alts = [x for x in (self.const(l) for l in NAMED_CONSTS_ALL.get(name, [])) if x is not None]
            if c is not None:
                return c, None
            u = Val(self.ctx.sym("const." + text[6:26], 64), 64)
            u.alts = ("?",)   # unknown constant: its width is whatever the other operand needs
            return u, None
        if text.startswith("copy ") or text.startswith("move "):
            c, ty = self.canon(env, text[5:])
            pty = self.place_type(c, ty)
            v = env.get(c)
            if v is not None and v.ref is not None:
                return v, c
            if sort_of_type(pty) is not None or (v is not None and v.term is not None):
                return self.read(env, c, ty), c
            return self.read(env, c, ty), c
        if re.match(r"^[A-Za-z_<][\w:<>, &'\[\]{}@/.\-]*$", text):
            # function item / zero-sized constant used as a value: opaque
            return Val(self.ctx.sym("item." + text[:24], 64), 64), None
        raise Unsupported("operand: %s" % text)

    # ------------------------------------------------------------ rvalues
    def binop(self, op, a, b, ta):
        w = a.sort
        signed = is_signed(ta)
        if op in ("Add", "AddUnchecked", "Sub", "SubUnchecked", "Mul", "MulUnchecked"):
            f = {"A": "bvadd", "S": "bvsub", "M": "bvmul"}[op[0]]
            return Val("(%s %s %s)" % (f, a.term, b.term), w)
        if op in ("BitAnd", "BitOr", "BitXor"):
            if w == "Bool":
                f = {"BitAnd": "and", "BitOr": "or", "BitXor": "xor"}[op]
            else:
                f = {"BitAnd": "bvand", "BitOr": "bvor", "BitXor": "bvxor"}[op]
            return Val("(%s %s %s)" % (f, a.term, b.term), w)
        if op in ("Eq", "Ne"):
            e = "(= %s %s)" % (a.term, b.term)
            return Val(e if op == "Eq" else NOT(e), "Bool")
        if op in ("Lt", "Le", "Gt", "Ge"):
            if w == "Bool":
                raise Unsupported("ordering on bool")
            f = ("bvs" if signed else "bvu") + op.lower()
            return Val("(%s %s %s)" % (f, a.term, b.term), "Bool")
        if op in ("Shl", "ShlUnchecked", "Shr", "ShrUnchecked"):
            bt = b.term
            if b.sort != w:
                bt = self.resize(b, w, False).term
            f = "bvshl" if op.startswith("Shl") else ("bvashr" if signed else "bvlshr")
            return Val("(%s %s %s)" % (f, a.term, bt), w)
        if op in ("Div", "Rem"):
            f = {"Div": "bvsdiv" if signed else "bvudiv", "Rem": "bvsrem" if signed else "bvurem"}[op]
            return Val("(%s %s %s)" % (f, a.term, b.term), w)
        raise Unsupported("binop %s" % op)

    def resize(self, v, w, signed):
        if v.sort == "Bool":
            return Val("(ite %s %s %s)" % (v.term, bv(1, w), bv(0, w)), w)
        if v.sort == w:
            return v
        if v.sort > w:
            return Val("((_ extract %d 0) %s)" % (w - 1, v.term), w)
        ext = "sign_extend" if signed else "zero_extend"
        return Val("((_ %s %d) %s)" % (ext, w - v.sort, v.term), w)

    def overflow(self, op, a, b, signed):
        w = a.sort
        if op == "Add":
            if signed:
                return "(let ((s (bvadd %s %s))) (and (= ((_ extract %d %d) %s) ((_ extract %d %d) %s)) (not (= ((_ extract %d %d) s) ((_ extract %d %d) %s)))))" % (
                    a.term, b.term, w - 1, w - 1, a.term, w - 1, w - 1, b.term, w - 1, w - 1, w - 1, w - 1, a.term)
            return "(bvult (bvadd %s %s) %s)" % (a.term, b.term, a.term)
        if op == "Sub":
            if signed:
                return "(let ((s (bvsub %s %s))) (and (not (= ((_ extract %d %d) %s) ((_ extract %d %d) %s))) (not (= ((_ extract %d %d) s) ((_ extract %d %d) %s)))))" % (
                    a.term, b.term, w - 1, w - 1, a.term, w - 1, w - 1, b.term, w - 1, w - 1, w - 1, w - 1, a.term)
            return "(bvult %s %s)" % (a.term, b.term)
        if op == "Mul":
            ext = "sign_extend" if signed else "zero_extend"
            wide = "(bvmul ((_ %s %d) %s) ((_ %s %d) %s))" % (ext, w, a.term, ext, w, b.term)
            back = "((_ %s %d) ((_ extract %d 0) %s))" % (ext, w, w - 1, wide)
            return "(not (= %s %s))" % (wide, back)
        raise Unsupported("overflow op %s" % op)

    def assign(self, env, node, guard, dest_text, rv):
        c, ty = self.canon(env, dest_text)
        dty = self.place_type(c, ty)
        dsort = sort_of_type(dty)
        rv = rv.strip()
        if rv.startswith("no_retag "):
            rv = rv[len("no_retag "):]
        is_ref_write = c.startswith("(*") or "(*" in c
        # ---- references
        m = re.match(r"^&(?:raw )?(mut |const )?(.*)$", rv)
        if m and not rv.startswith("&&"):
            tgt, _ = self.canon(env, m.group(2))
            self.kill(env, c)
            env[c] = Val(self.ctx.sym("ref." + tgt, 64), 64, ref=tgt, mut=(m.group(1) == "mut "))
            return
        if rv.startswith("discriminant("):
            pc, pty = self.canon(env, rv[len("discriminant("):-1])
            d = self.read_discr(env, pc)
            self.events.append(Event("discr_read", guard, node, place=pc, ty=self.place_type(pc, pty), term=d.term))
            self.store(env, node, guard, c, self.resize(d, dsort or 64, False), is_ref_write)
            return
        m = re.match(r"^(\w+)\((.*)\)$", rv)
        if m and m.group(1) in ("Add", "Sub", "Mul", "Div", "Rem", "BitAnd", "BitOr", "BitXor", "Eq", "Ne",
                                "Lt", "Le", "Gt", "Ge", "Shl", "Shr", "AddUnchecked", "SubUnchecked",
                                "MulUnchecked", "ShlUnchecked", "ShrUnchecked", "Offset", "Cmp"):
            a_t, b_t = split_top(m.group(2), ", ")
            (a, ap), (b, _) = self.operand(env, a_t), self.operand(env, b_t)
            ta = self.operand_type(env, a_t)
            if m.group(1) in ("Offset", "Cmp"):
                self.havoc_place(env, c, dty)
                return
            a, b = self.coerce_unknown(a, b)
            if a.sort != b.sort and m.group(1)[:3] not in ("Shl", "Shr"):
                for x in b.alts:
                    if x != "?" and x.sort == a.sort:
                        b = x
                for x in a.alts:
                    if x != "?" and x.sort == b.sort:
                        a = x
            if a.sort != b.sort and m.group(1)[:3] not in ("Shl", "Shr"):
                raise Unsupported("binop sorts differ: %s" % rv)
            self.store(env, node, guard, c, self.binop(m.group(1), a, b, ta), is_ref_write)
            return
        m = re.match(r"^(Add|Sub|Mul)WithOverflow\((.*)\)$", rv)
        if m:
            a_t, b_t = split_top(m.group(2), ", ")
            (a, _), (b, _) = self.operand(env, a_t), self.operand(env, b_t)
            a, b = self.coerce_unknown(a, b)
            ta = self.operand_type(env, a_t) or self.operand_type(env, b_t)
            res = self.binop(m.group(1), a, b, ta)
            ovf = self.overflow(m.group(1), a, b, is_signed(ta))
            self.kill(env, c)
            env[c + ".0"] = Val(self.ctx.define("sum", res.sort, res.term), res.sort)
            env[c + ".1"] = Val(self.ctx.define("ovf", "Bool", ovf), "Bool")
            return
        m = re.match(r"^(Not|Neg)\((.*)\)$", rv)
        if m:
            a, _ = self.operand(env, m.group(2))
            if m.group(1) == "Not":
                t = NOT(a.term) if a.sort == "Bool" else "(bvnot %s)" % a.term
            else:
                t = "(bvneg %s)" % a.term
            self.store(env, node, guard, c, Val(t, a.sort), is_ref_write)
            return
        # ---- casts
        m = re.match(r"^(.*) as (\S+) \((\w+)(?:\(.*\))?\)$", rv)
        if m:
            a, ap = self.operand(env, m.group(1))
            kind = m.group(3)
            tw = sort_of_type(m.group(2))
            if kind == "IntToInt" and tw not in (None, "Bool") and a.sort != "Bool":
                ta = self.operand_type(env, m.group(1))
                self.store(env, node, guard, c, self.resize(a, tw, is_signed(ta)), is_ref_write)
                return
            if kind == "IntToInt" and a.sort == "Bool" and tw not in (None, "Bool"):
                self.store(env, node, guard, c, self.resize(a, tw, False), is_ref_write)
                return
            # pointer / unsize / transmute-like casts keep identity
            if ap is not None and a.ref is not None:
                self.kill(env, c)
                env[c] = a
                return
            if ap is not None:
                self.copy_tree(env, ap, c)
            self.havoc_place(env, c, dty, keep_sub=True)
            return
        # ---- plain use
        if rv.startswith("copy ") or rv.startswith("move ") or rv.startswith("const "):
            v, src = self.operand(env, rv)
            if v.ref is not None:
                self.kill(env, c)
                env[c] = v
                if is_ref_write:
                    self.events.append(Event("write", guard, node, place=c, value=None, text=rv))
                return
            if dsort is not None or (src is None and v.term is not None and rv.startswith("const ")):
                if dsort is not None and v.sort != dsort:
                    v = self.resize(v, dsort, False)
                self.store(env, node, guard, c, v, is_ref_write)
                return
            # aggregate copy
            if src is not None:
                self.copy_tree(env, src, c)
                env[c] = v
                # sub-places not known yet keep referring to the source's entry values
                env["alias(%s)" % c] = Val(None, None, ref=self.alias_resolve(env, src))
            else:
                self.kill(env, c)
                env[c] = v
            if is_ref_write:
                self.events.append(Event("write", guard, node, place=c, value=v.term, text=rv, src=src))
            return
        # ---- aggregates
        if self.aggregate(env, node, guard, c, dty, rv, is_ref_write):
            return
        m = re.match(r"^(Len|PtrMetadata|UnaryOp|NullaryOp|SizeOf|AlignOf|ShallowInitBox|CopyForDeref|ThreadLocalRef)\b", rv)
        if m:
            if m.group(1) == "CopyForDeref":
                inner = rv[len("CopyForDeref("):-1]
                return self.assign(env, node, guard, dest_text, "copy " + inner)
            self.havoc_place(env, c, dty)
            return
        raise Unsupported("rvalue: %s" % rv)

    def coerce_unknown(self, a, b):
        """an unknown named constant takes the width of the operand it meets"""
        if a.sort != b.sort:
            if a.alts == ("?",) and b.sort not in (None, "Bool"):
                a = Val(self.ctx.sym("const?", b.sort), b.sort)
            elif b.alts == ("?",) and a.sort not in (None, "Bool"):
                b = Val(self.ctx.sym("const?", a.sort), a.sort)
        return a, b

    def operand_type(self, env, text):
        text = text.strip()
        if text.startswith("const "):
            m = re.search(r"_(u8|i8|u16|i16|u32|i32|u64|i64|usize|isize|u128|i128)$", text)
            return m.group(1) if m else None
        c, ty = self.canon(env, text[5:])
        return self.place_type(c, ty)

    VARIANT_IDX = {"Some": 1, "None": 0, "Ok": 0, "Err": 1, "Continue": 0, "Break": 1}

    def aggregate(self, env, node, guard, c, dty, rv, is_ref_write):
        # Option::<T>::Some(x) / Result::<..>::Ok(x) / ControlFlow::<..>::Break(x) / unit variants
        m = re.match(r"^(?:std::|core::)?(?:option::)?(?:result::)?(?:ops::)?(?:Option|Result|ControlFlow)::<.*>::(Some|None|Ok|Err|Continue|Break)(?:\((.*)\))?$", rv)
        if m:
            var = m.group(1)
            self.kill(env, c)
            env["discr(%s)" % c] = Val(bv(self.VARIANT_IDX[var], 64), 64)
            env[c] = Val(self.ctx.sym("agg." + c, 64), 64)
            if m.group(2) is not None and m.group(2).strip():
                v, src = self.operand(env, m.group(2))
                fld = "(%s as %s).0" % (c, var)
                if src is not None:
                    self.copy_tree(env, src, fld)
                env[fld] = v
            if is_ref_write:
                self.events.append(Event("write", guard, node, place=c, value=None, text=rv,
                                         payload=(env.get("(%s as %s).0" % (c, var)))))
            return True
        # tuple
        if rv.startswith("(") and matching_paren(rv, 0) == len(rv) - 1:
            parts = [p for p in split_top(rv[1:-1], ", ") if p.strip()]
            self.kill(env, c)
            env[c] = Val(self.ctx.sym("tup." + c, 64), 64)
            for i, p in enumerate(parts):
                p = p.rstrip(",")
                v, src = self.operand(env, p)
                if src is not None:
                    self.copy_tree(env, src, "%s.%d" % (c, i))
                env["%s.%d" % (c, i)] = v
            if is_ref_write:
                self.events.append(Event("write", guard, node, place=c, value=None, text=rv))
            return True
        # unit variant of an enum whose declaration a property module registered
        m = re.match(r"^(?:\w+::)*(\w+)::(\w+)$", rv)
        if m and (m.group(1), m.group(2)) in ENUM_VARIANTS:
            self.kill(env, c)
            env["discr(%s)" % c] = Val(bv(ENUM_VARIANTS[(m.group(1), m.group(2))], 64), 64)
            env[c] = Val(self.ctx.sym("agg." + c, 64), 64)
            if is_ref_write:
                self.events.append(Event("write", guard, node, place=c, value=None, text=rv))
            return True
        # plain struct literal `path::Name { a: op, b: op }`: fields by position (declaration
        # order), so that what a message is built from can be compared with its source
        m = re.match(r"^[A-Za-z_][\w:]*(?:::<.*>)? \{ (.*) \}$", rv)
        if m and "{closure@" not in rv:
            parts = [p for p in split_top(m.group(1), ", ") if ": " in p]
            self.kill(env, c)
            env[c] = Val(self.ctx.sym("agg." + c, 64), 64)
            for i, p in enumerate(parts):
                op = p.split(": ", 1)[1].strip()
                try:
                    v, src = self.operand(env, op)
                except Unsupported:
                    continue
                if src is not None:
                    self.copy_tree(env, src, "%s.%d" % (c, i))
                    k = "discr(%s)" % src
                    if k in env:
                        env["discr(%s.%d)" % (c, i)] = env[k]
                    if v.ref is None:
                        env["alias(%s.%d)" % (c, i)] = Val(None, None, ref=self.alias_resolve(env, src))
                env["%s.%d" % (c, i)] = v
            if is_ref_write:
                self.events.append(Event("write", guard, node, place=c, value=None, text=rv))
            return True
        # struct / closure / enum struct-variant / array: opaque, fields by position when listed
        if re.match(r"^(\{closure@|\[|[\w:<>, &'\[\]()]+\s*\{|[\w:<>, &']+::\w+(\(|$)|[A-Z]\w*\(.*\)$|[A-Za-z_][\w:]*::<[^()]*>\(.*\)$|[\w:<>, &']+$)", rv):
            self.kill(env, c)
            env[c] = Val(self.ctx.sym("agg." + c, 64), 64)
            if is_ref_write:
                self.events.append(Event("write", guard, node, place=c, value=None, text=rv))
            return True
        return False

    def havoc_place(self, env, c, dty, keep_sub=False):
        if not keep_sub:
            self.kill(env, c)
        sort = sort_of_type(dty) or 64
        env[c] = Val(self.ctx.sym("hv." + c, sort), sort)

    def store(self, env, node, guard, c, v, is_ref_write):
        prev = env.get(c)
        self.kill(env, c)
        t = self.ctx.define("v." + c, v.sort, v.term)
        env[c] = Val(t, v.sort)
        if is_ref_write:
            self.events.append(Event("write", guard, node, place=c, value=t, sort=v.sort,
                                     prev=prev.term if prev is not None and prev.sort == v.sort else None))

    # ------------------------------------------------------------ calls
    def call(self, env, node, guard, t):
        self.stats["calls"] += 1
        callee = t["callee"]
        args = []
        for a in t["args"]:
            v, src = self.operand(env, a)
            args.append({"text": a, "val": v, "place": src,
                         "discr": env.get("discr(%s)" % (v.ref if v.ref else src)) if (src or v.ref) else None})
        dest = None
        dty = None
        if t["dest"]:
            dest, ty = self.canon(env, t["dest"])
            dty = self.place_type(dest, ty)
        ev = Event("call", guard, node, callee=callee, args=args, dest=dest, bb=node[0], env=dict(env))
        self.events.append(ev)
        handled = False
        if self.inline is not None and self.depth < 2 and args and self.is_self_arg(args[0]):
            handled = self.inline_call(env, node, guard, ev, dest, dty)
        for pat, model in self.models:
            if re.search(pat, callee):
                handled = model(self, env, node, guard, ev, dest, dty)
                if handled:
                    break
        if not handled:
            handled = self.builtin_model(env, node, guard, ev, dest, dty)
        if not handled:
            # uninterpreted: havoc what &mut arguments point to, fresh result
            for a in args:
                if a["val"].ref is not None and a["val"].mut:
                    self.kill(env, a["val"].ref)
                    env.pop(a["val"].ref, None)
                    self.events.append(Event("havoc", guard, node, place=a["val"].ref, by=callee))
            if dest is not None:
                self.havoc_place(env, dest, dty)
        ev.result = env.get(dest) if dest is not None else None
        ev.result_discr = env.get("discr(%s)" % dest) if dest is not None else None

    def is_self_arg(self, a):
        v = a["val"]
        return (a["text"].split()[-1] == "_1" and v.ref is None) or v.ref == "(*_1)"

    def inline_call(self, env, node, guard, ev, dest, dty):
        """execute a small loop-free method of the same object in place (shared heap names:
        the callee's `(*_1)` is the caller's `(*_1)`); its events are appended with this call's
        node, its stores land in the caller's environment, its `_0` becomes the result"""
        cf = self.inline(ev.callee)
        if cf is None or len(cf.blocks) > 48:
            return False
        sub = Executor(cf, ctx=self.ctx, loop_bound=lambda f, h: 0, models=self.models, max_nodes=2000,
                       named_consts=self.named_consts, inline=self.inline, initial=self.initial, depth=self.depth + 1)
        try:
            sub.analyse_loops()
        except Unsupported:
            return False
        if sub.loops:
            return False
        cenv = {k: v for k, v in env.items() if "(*_1)" in k}
        for (loc, _ty), a in zip(cf.args[1:], ev.args[1:]):
            cenv[loc] = a["val"]
        sub.entry = (guard, cenv)
        try:
            sev = sub.run()
        except Unsupported:
            return False
        rets = [e for e in sev if e.kind == "return"]
        if len(rets) != 1:
            return False
        for e in sev:
            if e.kind == "return":
                continue
            e.node = node
            e.inlined = ev.callee
            self.events.append(e)
        renv = rets[0].env
        for k in [k for k in env if "(*_1)" in k]:
            del env[k]
        for k, v in renv.items():
            if "(*_1)" in k:
                env[k] = v
        ev.inlined_body = cf.name
        if dest is not None:
            self.kill(env, dest)
            for k, v in renv.items():
                if k == "_0":
                    env[dest] = v
                elif sub_of(k, "_0"):
                    env[k.replace("_0", dest, 1)] = v
            if dest not in env:
                self.havoc_place(env, dest, dty, keep_sub=True)
        self.stats["calls"] += sub.stats["calls"]
        return True

    def builtin_model(self, env, node, guard, ev, dest, dty):
        callee, args = ev.callee, ev.args

        def arg_place(i):
            a = args[i]
            return a["val"].ref if a["val"].ref is not None else a["place"]

        def set_discr(term):
            self.kill(env, dest)
            env[dest] = Val(self.ctx.sym("res." + dest, 64), 64)
            env["discr(%s)" % dest] = Val(self.ctx.define("discr", 64, term), 64)

        if re.search(r"<Result<.*> as (std::ops::)?Try>::branch$", callee):
            src = arg_place(0)
            d = self.read_discr(env, src)
            set_discr(d.term)
            self.copy_from(env, "(%s as Ok).0" % src, "(%s as Continue).0" % dest)
            return True
        if re.search(r"<Option<.*> as (std::ops::)?Try>::branch$", callee):
            src = arg_place(0)
            d = self.read_discr(env, src)
            set_discr("(ite (= %s %s) %s %s)" % (d.term, bv(1, 64), bv(0, 64), bv(1, 64)))
            self.copy_from(env, "(%s as Some).0" % src, "(%s as Continue).0" % dest)
            return True
        if re.search(r"<Result<.*> as (std::ops::)?FromResidual<.*>>::from_residual$", callee):
            set_discr(bv(1, 64))
            return True
        if re.search(r"<Option<.*> as (std::ops::)?FromResidual<.*>>::from_residual$", callee):
            set_discr(bv(0, 64))
            return True
        if re.search(r"Option::<.*>::(ok_or_else|ok_or)(::<.*>)?$", callee):
            src = arg_place(0)
            d = self.read_discr(env, src)
            set_discr("(ite (= %s %s) %s %s)" % (d.term, bv(1, 64), bv(0, 64), bv(1, 64)))
            self.copy_from(env, "(%s as Some).0" % src, "(%s as Ok).0" % dest)
            return True
        if re.search(r"Result::<.*>::map_err(::<.*>)?$", callee):
            src = arg_place(0)
            d = self.read_discr(env, src)
            set_discr(d.term)
            self.copy_from(env, "(%s as Ok).0" % src, "(%s as Ok).0" % dest)
            ev.passthrough_of = src
            return True
        if re.search(r"Option::<.*>::(as_ref|as_mut|as_deref|as_deref_mut)$", callee):
            src = arg_place(0)
            d = self.read_discr(env, src)
            set_discr(d.term)
            env["(%s as Some).0" % dest] = Val(self.ctx.sym("ref.some", 64), 64,
                                                ref="(%s as Some).0" % src, mut="mut" in callee)
            return True
        if re.search(r"Option::<.*>::(is_some|is_none)$", callee):
            src = arg_place(0)
            d = self.read_discr(env, src)
            e = "(= %s %s)" % (d.term, bv(1, 64))
            self.kill(env, dest)
            env[dest] = Val(self.ctx.define("is", "Bool", e if callee.endswith("is_some") else NOT(e)), "Bool")
            return True
        if re.search(r"Result::<.*>::(is_ok|is_err)$", callee):
            src = arg_place(0)
            d = self.read_discr(env, src)
            e = "(= %s %s)" % (d.term, bv(0, 64))
            self.kill(env, dest)
            env[dest] = Val(self.ctx.define("is", "Bool", e if callee.endswith("is_ok") else NOT(e)), "Bool")
            return True
        # ---- exact models of integer std methods
        m = re.search(r"core::num::<impl (i8|i16|i32|i64|isize|u8|u16|u32|u64|usize)>::(checked_add|checked_sub|checked_mul|saturating_add|saturating_sub|wrapping_add|wrapping_sub|min|max)$", callee)
        if not m:
            # std::cmp::min::<u64>(a, b) / <u64 as Ord>::min(a, b) on primitive integers
            m2 = re.search(r"(?:std|core)::cmp::(min|max)::<(i8|i16|i32|i64|isize|u8|u16|u32|u64|usize)>$|<(i8|i16|i32|i64|isize|u8|u16|u32|u64|usize) as Ord>::(min|max)$", callee)
            if m2:
                ty = m2.group(2) or m2.group(3)
                op = m2.group(1) or m2.group(4)
                m = re.match(r"(.*)::(.*)", "%s::%s" % (ty, op))
        if m and len(args) == 2 and args[0]["val"].term and args[1]["val"].term and args[0]["val"].sort == args[1]["val"].sort == INT_W[m.group(1)]:
            ty, op = m.group(1), m.group(2)
            a, b = args[0]["val"], args[1]["val"]
            sg = is_signed(ty)
            w = INT_W[ty]
            if op.startswith("checked_"):
                kind = {"add": "Add", "sub": "Sub", "mul": "Mul"}[op[8:]]
                res = self.binop(kind, a, b, ty)
                ovf = self.overflow(kind, a, b, sg)
                self.kill(env, dest)
                env[dest] = Val(self.ctx.sym("res." + dest, 64), 64)
                env["discr(%s)" % dest] = Val(self.ctx.define("ck", 64, "(ite %s %s %s)" % (ovf, bv(0, 64), bv(1, 64))), 64)
                env["(%s as Some).0" % dest] = Val(self.ctx.define("ckv", w, res.term), w)
                return True
            if op.startswith("wrapping_"):
                res = self.binop("Add" if op.endswith("add") else "Sub", a, b, ty)
            elif op.startswith("saturating_"):
                kind = "Add" if op.endswith("add") else "Sub"
                r0 = self.binop(kind, a, b, ty)
                ovf = self.overflow(kind, a, b, sg)
                if sg:
                    mx, mn = bv((1 << (w - 1)) - 1, w), bv(1 << (w - 1), w)
                    # on signed overflow the result saturates toward the sign of a (add) / of a (sub)
                    sat = "(ite (bvslt %s %s) %s %s)" % (a.term, bv(0, w), mn, mx)
                else:
                    sat = bv((1 << w) - 1, w) if kind == "Add" else bv(0, w)
                res = Val("(ite %s %s %s)" % (ovf, sat, r0.term), w)
            else:
                lt = "(%s %s %s)" % ("bvslt" if sg else "bvult", a.term, b.term)
                res = Val("(ite %s %s %s)" % (lt, a.term if op == "min" else b.term, b.term if op == "min" else a.term), w)
            self.kill(env, dest)
            env[dest] = Val(self.ctx.define("im", w, res.term), w)
            return True
        m = re.search(r"<(i8|i16|i32|i64|isize|u8|u16|u32|u64|usize) as TryFrom<(i8|i16|i32|i64|isize|u8|u16|u32|u64|usize)>>::try_from$", callee)
        if m and len(args) == 1 and args[0]["val"].term and args[0]["val"].sort == INT_W[m.group(2)]:
            to, frm = m.group(1), m.group(2)
            a = args[0]["val"]
            wt, wf = INT_W[to], INT_W[frm]
            conv = self.resize(a, wt, is_signed(frm))
            back = self.resize(conv, wf, is_signed(to))
            fits = "(= %s %s)" % (back.term, a.term)
            if is_signed(to) != is_signed(frm):
                # sign change: additionally the value must be non-negative in both views
                neg_src = "(bvslt %s %s)" % (a.term, bv(0, wf)) if is_signed(frm) else "false"
                neg_dst = "(bvslt %s %s)" % (conv.term, bv(0, wt)) if is_signed(to) else "false"
                fits = AND(fits, NOT(neg_src), NOT(neg_dst))
            self.kill(env, dest)
            env[dest] = Val(self.ctx.sym("res." + dest, 64), 64)
            env["discr(%s)" % dest] = Val(self.ctx.define("tf", 64, "(ite %s %s %s)" % (fits, bv(0, 64), bv(1, 64))), 64)
            env["(%s as Ok).0" % dest] = Val(self.ctx.define("tfv", wt, conv.term), wt)
            return True
        m = re.search(r"(Result|Option)::<(i8|i16|i32|i64|isize|u8|u16|u32|u64|usize)(, .*)?>::unwrap_or$", callee)
        if m and len(args) == 2 and args[1]["val"].term:
            src = arg_place(0)
            var = "Ok" if m.group(1) == "Result" else "Some"
            good = bv(0, 64) if m.group(1) == "Result" else bv(1, 64)
            w = INT_W[m.group(2)]
            pay = env.get("(%s as %s).0" % (src, var)) or self.read(env, "(%s as %s).0" % (src, var), m.group(2))
            dflt = args[1]["val"]
            if dflt.sort != w:
                lit = self.named_consts.get(args[1]["text"].split("::")[-1])
                if args[1]["text"].endswith("::MAX"):
                    dflt = Val(bv((1 << (w - 1)) - 1 if is_signed(m.group(2)) else (1 << w) - 1, w), w)
                elif args[1]["text"].endswith("::MIN"):
                    dflt = Val(bv((1 << (w - 1)) if is_signed(m.group(2)) else 0, w), w)
                else:
                    return False
            d = self.read_discr(env, src)
            self.kill(env, dest)
            env[dest] = Val(self.ctx.define("uo", w, "(ite (= %s %s) %s %s)" % (d.term, good, pay.term, dflt.term)), w)
            return True
        if re.search(r"<.* as (std::convert::)?(Into|From)<.*>>::(into|from)$|<.* as Clone>::clone$|<.* as ToOwned>::to_owned$|<.* as (std::ops::)?Deref(Mut)?>::deref(_mut)?$", callee):
            # value-preserving conversions of opaque data: fresh, no side effect
            if dest is not None:
                self.havoc_place(env, dest, dty)
            return True
        return False

    def copy_from(self, env, src, dst):
        self.copy_tree(env, src, dst)
        v = env.get(src)
        if v is not None:
            env[dst] = v
        else:
            env.pop(dst, None)

    # ------------------------------------------------------------ main loop
    def run(self):
        order = self.expand()
        fn = self.fn
        incoming = {order[0]: [self.entry]} if order else {}
        ctx = self.ctx
        self.node_guard = {}
        for node in order:
            ins = incoming.pop(node, [])
            if not ins:
                continue
            guard, env = self.merge(node, ins)
            if guard == "false":
                continue
            self.node_guard[node] = guard
            self.stats["nodes"] += 1
            bb = node[0]
            blk = fn.blocks[bb]
            for st in blk["stmts"]:
                self.stats["stmts"] += 1
                if NOOP_STMT.match(st):
                    continue
                m = re.match(r"^discriminant\((.*)\) = (\d+)$", st)
                if m:
                    c, _ = self.canon(env, m.group(1))
                    env["discr(%s)" % c] = Val(bv(int(m.group(2)), 64), 64)
                    continue
                parts = split_top(st, " = ", 1)
                if len(parts) != 2:
                    raise Unsupported("statement: %s" % st)
                self.assign(env, node, guard, parts[0], parts[1])
            t = parse_terminator(blk["term"] or "unreachable")
            k = t["kind"]
            outs = []   # (cond, target bb)
            if k == "goto":
                outs = [("true", t["target"])]
            elif k == "switch":
                v, _ = self.operand(env, t["op"])
                conds = []
                for val, tgt in t["arms"]:
                    if v.sort == "Bool":
                        c = v.term if val == "1" else NOT(v.term)
                    else:
                        c = "(= %s %s)" % (v.term, bv(int(val), v.sort))
                    conds.append(c)
                    outs.append((c, tgt))
                if t["otherwise"]:
                    outs.append((AND(*[NOT(c) for c in conds]), t["otherwise"]))
            elif k == "drop":
                outs = [("true", t["target"])]
            elif k == "assert":
                ct = t["cond"]
                neg = ct.startswith("!")
                v, _ = self.operand(env, ct[1:] if neg else ct)
                ok = NOT(v.term) if neg else v.term
                self.events.append(Event("assert", AND(guard, NOT(ok)), node, msg=t["msg"][:80], bb=bb))
                outs = [(ok, t["target"])]
            elif k == "call":
                self.call(env, node, guard, t)
                if t["target"]:
                    outs = [("true", t["target"])]
            elif k == "return":
                self.events.append(Event("return", guard, node, env=dict(env)))
            elif k in ("unreachable", "diverge"):
                pass
            else:
                raise Unsupported("terminator %s" % t)
            succ = {v: nn for nn, v in self.edges.get(node, [])}
            for cond, tgt in outs:
                if tgt is None or fn.blocks[tgt]["cleanup"]:
                    continue
                g = ctx.define("g", "Bool", AND(guard, cond))
                nn = succ.get(tgt)
                if nn is None:
                    self.events.append(Event("unwind", g, node, header=tgt))
                    continue
                incoming.setdefault(nn, []).append((g, dict(env)))
        return self.events

    def merge(self, node, ins):
        ctx = self.ctx
        if len(ins) == 1:
            return ins[0]
        guard = ctx.define("jg", "Bool", OR(*[g for g, _ in ins]))
        keys = set()
        for _, e in ins:
            keys.update(e)
        env = {}
        for k in keys:
            vals = [(g, e.get(k)) for g, e in ins]
            present = [v for _, v in vals if v is not None]
            first = present[0]
            if all(v is not None and v.term == first.term and v.ref == first.ref for _, v in vals):
                env[k] = first
                continue
            if any(v is None for _, v in vals):
                init = self.initial.get(k)
                if init is not None and first.ref is None:
                    # not touched on that path: still the function-entry value
                    vals = [(g, v if v is not None else init) for g, v in vals]
                    present = [v for _, v in vals]
                else:
                    # keep references (needed to resolve (*_n)); forget the rest
                    if first.ref is not None and all(v is None or v.ref == first.ref for _, v in vals):
                        env[k] = first
                    continue
            if any(v.ref != first.ref for v in present):
                continue
            if any(v.sort != first.sort for v in present):
                continue
            term = present[-1].term
            for g, v in reversed(vals[:-1]):
                term = "(ite %s %s %s)" % (g, v.term, term)
            env[k] = Val(ctx.define("m." + k, first.sort, term), first.sort, ref=first.ref, mut=first.mut)
        return guard, env
