"""run an SMT-LIB2 script on z3 and cvc5; both must agree, any `(error` line is inconclusive"""
import os
import re
import subprocess
import tempfile
import time

SOLVERS = [
    ("z3", ["/usr/bin/z3", "-smt2"]),
    ("cvc5", ["cvc5", "--lang", "smt2", "--produce-models"]),
]


def run_one(cmd, path, timeout):
    t0 = time.time()
    try:
        p = subprocess.run(cmd + [path], capture_output=True, text=True, timeout=timeout)
        out = p.stdout + p.stderr
    except subprocess.TimeoutExpired:
        return "timeout", "", time.time() - t0
    verdict = "unknown"
    for line in out.splitlines():
        line = line.strip()
        if line in ("sat", "unsat", "unknown"):
            verdict = line
            break
    if "(error" in out:
        # get-value after unsat is an expected error for both solvers; anything else is not
        errs = [l for l in out.splitlines() if "(error" in l]
        benign = all(("model is not available" in e or "cannot get value" in e.lower()
                      or "Cannot get" in e or "not in a SAT" in e or "unless after a SAT" in e) for e in errs)
        if not benign or verdict == "unknown":
            return "error", out, time.time() - t0
    return verdict, out, time.time() - t0


def check(script, timeout=120, keep=None):
    """-> (verdict 'sat'|'unsat'|'inconclusive', model dict, solver seconds, detail)"""
    fd, path = tempfile.mkstemp(suffix=".smt2", dir=keep)
    os.write(fd, script.encode())
    os.close(fd)
    res = {}
    total = 0.0
    outs = {}
    for name, cmd in SOLVERS:
        v, out, secs = run_one(cmd, path, timeout)
        res[name] = v
        outs[name] = out
        total += secs
    if keep is None:
        os.unlink(path)
    vs = set(res.values())
    if len(vs) != 1 or vs & {"error", "timeout", "unknown"}:
        errs = " | ".join(l.strip() for o in outs.values() for l in o.splitlines() if "(error" in l)[:300]
        return "inconclusive", {}, total, "solvers: %s %s" % (res, errs)
    v = vs.pop()
    model = {}
    if v == "sat":
        model = parse_values(outs["z3"])
    return v, model, total, "z3=%s cvc5=%s" % (res["z3"], res["cvc5"])


def parse_values(out):
    """(get-value ...) output -> {name: int|bool}"""
    m = {}
    for name, val in re.findall(r"\((\|[^|]*\||[^\s()]+)\s+(#x[0-9a-fA-F]+|#b[01]+|true|false|\(_ bv\d+ \d+\))\)", out):
        if val in ("true", "false"):
            m[name] = val == "true"
        elif val.startswith("#x"):
            m[name] = int(val[2:], 16)
        elif val.startswith("#b"):
            m[name] = int(val[2:], 2)
        else:
            m[name] = int(re.match(r"\(_ bv(\d+)", val).group(1))
    return m
