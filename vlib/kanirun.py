"""Engine K: run Kani/CBMC harnesses from /verif/kani against /repo's current tree.

The deciding step is CBMC's SAT verdict over the goto program compiled from the real
crates; this module only builds, schedules, parses and classifies.
"""
import concurrent.futures as cf
import os
import re
import shutil
import subprocess
import time

VERIF = os.path.dirname(os.path.dirname(os.path.abspath(__file__)))
# VERIF_REPO / VERIF_BUILD let the same machinery run against a scratch worktree of the
# repository (seeded-defect experiments) without touching /repo; the registered checks
# never set them.
REPO = os.environ.get("VERIF_REPO", "/repo").rstrip("/")
BUILD = os.environ.get("VERIF_BUILD", os.path.join(VERIF, ".build"))
KANI_SRC = os.path.join(VERIF, "kani")
KANI_DIR = KANI_SRC if REPO == "/repo" else os.path.join(BUILD, "kani-src")
TARGET = os.path.join(BUILD, "kani")


def _mirror_crate():
    """scratch-repo mode: copy the harness crate with its path deps re-pointed"""
    if KANI_DIR == KANI_SRC:
        return
    os.makedirs(BUILD, exist_ok=True)
    if os.path.exists(KANI_DIR):
        shutil.rmtree(KANI_DIR)
    shutil.copytree(KANI_SRC, KANI_DIR, ignore=shutil.ignore_patterns("target", "Cargo.lock"))
    p = os.path.join(KANI_DIR, "Cargo.toml")
    t = open(p).read().replace('"/repo/', '"%s/' % REPO)
    open(p, "w").write(t)
ENV = dict(os.environ)
ENV.update({
    "CARGO_NET_OFFLINE": "true",
    "RUSTFLAGS": "--cfg sozu_verif",
    "CARGO_TERM_COLOR": "never",
})
KANI_FLAGS = ["-Z", "stubbing"]
VMEM_KB = 14_000_000


def _sync_lock():
    """the harness crate resolves against /repo's own lock file (offline, same versions)"""
    _mirror_crate()
    src = os.path.join(REPO, "Cargo.lock")
    dst = os.path.join(KANI_DIR, "Cargo.lock")
    want = open(src).read()
    have = open(dst).read() if os.path.exists(dst) else ""
    # cargo appends our own package entry; only re-seed when /repo's part changed
    marker = os.path.join(BUILD, "lock.seed")
    os.makedirs(BUILD, exist_ok=True)
    seed = open(marker).read() if os.path.exists(marker) else ""
    if seed != want or not have:
        open(dst, "w").write(want)
        open(marker, "w").write(want)


def build(log_path):
    """compile /repo (hooks on) + harness crate under Kani; returns (ok, seconds, tail)"""
    _sync_lock()
    t0 = time.time()
    cmd = ["cargo", "kani", "--only-codegen", "--target-dir", TARGET] + KANI_FLAGS
    with open(log_path, "w") as log:
        p = subprocess.run(cmd, cwd=KANI_DIR, env=ENV, stdout=log, stderr=subprocess.STDOUT)
    out = open(log_path, errors="replace").read()
    return p.returncode == 0, time.time() - t0, out[-4000:]


CHECK_RE = re.compile(
    r"Check (\d+): (\S+)\n\s+- Status: (\w+)\n\s+- Description: \"(.*?)\"\n(?:\s+- Location: (.*?)\n)?",
    re.S)


def parse(out):
    r = {"verdict": None, "checks": 0, "failed": [], "covers_total": 0, "covers_sat": 0,
         "cover_unsat": [], "time_s": None, "unwind_fail": False, "unsupported": []}
    m = re.search(r"VERIFICATION:- (\w+)", out)
    if m:
        r["verdict"] = m.group(1)
    m = re.search(r"\*\* (\d+) of (\d+) failed", out)
    if m:
        r["checks"] = int(m.group(2))
    m = re.search(r"\*\* (\d+) of (\d+) cover properties satisfied", out)
    if m:
        r["covers_sat"], r["covers_total"] = int(m.group(1)), int(m.group(2))
    m = re.search(r"Verification Time: ([0-9.]+)s", out)
    if m:
        r["time_s"] = float(m.group(1))
    for cm in CHECK_RE.finditer(out):
        num, name, status, desc, loc = cm.groups()
        if ".cover." in name or name.startswith("cover"):
            if status not in ("SATISFIED",):
                r["cover_unsat"].append({"check": name, "status": status, "desc": desc})
            continue
        if status == "FAILURE":
            if "unwinding assertion" in desc or ".unwind." in name:
                r["unwind_fail"] = True
            r["failed"].append({"check": name, "desc": desc, "loc": (loc or "").strip()})
        elif status == "UNDETERMINED":
            pass
    if "out of memory" in out or "Status: ERROR" in out:
        r["verdict"] = "ERROR"
    for um in re.finditer(r"Failed Checks: (.*)", out):
        pass
    if re.search(r"unsupported|is not currently supported by Kani", out) and r["verdict"] == "FAILED":
        for f in r["failed"]:
            if "not currently supported" in f["desc"] or "unsupported" in f["desc"].lower():
                r["unsupported"].append(f)
    return r


def run_harness(name, timeout_s, log_dir, extra=(), cbmc_args=(), vmem_kb=VMEM_KB):
    os.makedirs(log_dir, exist_ok=True)
    log_path = os.path.join(log_dir, name.replace("::", ".") + ".log")
    cmd = ["cargo", "kani", "--target-dir", TARGET] + KANI_FLAGS + \
          ["--harness", name, "--exact"] + list(extra)
    if cbmc_args:
        cmd += ["-Z", "unstable-options", "--cbmc-args"] + list(cbmc_args)
    sh = "ulimit -v %d; exec timeout %d %s" % (
        vmem_kb, timeout_s, " ".join("'%s'" % c for c in cmd))
    t0 = time.time()
    with open(log_path, "w") as log:
        p = subprocess.run(["bash", "-c", sh], cwd=KANI_DIR, env=ENV, stdout=log,
                           stderr=subprocess.STDOUT)
    wall = time.time() - t0
    out = open(log_path, errors="replace").read()
    r = parse(out)
    r.update({"harness": name, "wall_s": round(wall, 2), "rc": p.returncode, "log": log_path})
    if p.returncode == 124:
        r["verdict"] = "TIMEOUT"
    elif r["verdict"] is None:
        r["verdict"] = "ERROR"
    return r


def run_many(names, timeout_s, log_dir, jobs, cbmc_args=None):
    """cbmc_args: optional {harness: [extra cbmc flags]}"""
    os.makedirs(log_dir, exist_ok=True)
    res = {}
    cbmc_args = cbmc_args or {}
    with cf.ThreadPoolExecutor(max_workers=max(1, jobs)) as ex:
        futs = {ex.submit(run_harness, n, timeout_s, log_dir, (), cbmc_args.get(n, ())): n
                for n in names}
        for f in cf.as_completed(futs):
            res[futs[f]] = f.result()
    return res


PLAYBACK_RE = re.compile(r"```\s*\n(.*?)```", re.S)


def concrete_playback(name, timeout_s, log_dir, cbmc_args=()):
    """ask Kani for the counterexample as a Rust unit test (text)"""
    r = run_harness(name, timeout_s, log_dir + "/playback",
                    extra=["-Z", "concrete-playback", "--concrete-playback=print"],
                    cbmc_args=cbmc_args, vmem_kb=45_000_000)
    out = open(r["log"], errors="replace").read()
    tests = PLAYBACK_RE.findall(out)
    return tests, r


def native_replay(module_file, harness, test_src, log_dir):
    """Re-execute a Kani counterexample natively (no solver): copy the harness crate to a
    scratch dir, append the generated test next to the harness, run it with
    `cargo kani playback` in the dev profile and again with --release.
    Returns dict(dev=bool reproduced, release=bool reproduced, log=path)."""
    scratch = os.path.join(BUILD, "replay", harness.replace("::", "."))
    if os.path.exists(scratch):
        shutil.rmtree(scratch)
    shutil.copytree(KANI_DIR, scratch, ignore=shutil.ignore_patterns("target"))
    mod_path = os.path.join(scratch, "src", module_file)
    with open(mod_path, "a") as f:
        f.write("\n" + test_src + "\n")
    m = re.search(r"fn (kani_concrete_playback_\w+)", test_src)
    tname = m.group(1) if m else "kani_concrete_playback"
    os.makedirs(log_dir, exist_ok=True)
    log_path = os.path.join(log_dir, harness.replace("::", ".") + ".replay.log")
    res = {"log": log_path, "test": tname}
    env = dict(ENV)
    env["CARGO_TARGET_DIR"] = os.path.join(BUILD, "replay-target")
    with open(log_path, "w") as log:
        # `cargo kani playback` has no --release: the release-like run overrides the test
        # profile through cargo's environment (opt-level 3, no debug assertions, no
        # overflow checks), which is what users' release binaries are built with.
        rel = {"CARGO_PROFILE_TEST_OPT_LEVEL": "3", "CARGO_PROFILE_TEST_DEBUG_ASSERTIONS": "false",
               "CARGO_PROFILE_TEST_OVERFLOW_CHECKS": "false",
               "CARGO_PROFILE_DEV_OPT_LEVEL": "3", "CARGO_PROFILE_DEV_DEBUG_ASSERTIONS": "false",
               "CARGO_PROFILE_DEV_OVERFLOW_CHECKS": "false"}
        for prof, extra in (("dev", {}), ("release", rel)):
            cmd = ["cargo", "kani", "playback", "-Z", "concrete-playback", "--", tname]
            log.write("\n$ %s\n" % " ".join(cmd))
            log.flush()
            penv = dict(env)
            penv.update(extra)
            p = subprocess.run(["timeout", "1200"] + cmd, cwd=scratch, env=penv, stdout=log,
                               stderr=subprocess.STDOUT)
            log.flush()
            res[prof + "_rc"] = p.returncode
    out = open(log_path, errors="replace").read()
    # a reproduced counterexample = the test panics (test result: FAILED)
    parts = out.split("\n$ cargo kani playback")
    for prof, part in zip(("dev", "release"), parts[1:]):
        ran = re.search(r"running 1 test", part) is not None
        res[prof] = ran and ("test result: FAILED" in part or "panicked at" in part)
        res[prof + "_ran"] = ran
    shutil.rmtree(scratch, ignore_errors=True)
    return res
