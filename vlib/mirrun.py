"""Engine M driver: regenerate the MIR dump of /repo's current tree, run the property
modules (vlib/mir/props/*.py), replay counterexamples natively."""
import glob
import importlib
import os
import re
import shutil
import subprocess
import time

from . import kanirun
from .mir import parse

REPO = kanirun.REPO
BUILD = kanirun.BUILD
VERIF = kanirun.VERIF
MIR_DIR = os.path.join(BUILD, "mir")
CRATES = {
    "command": ("sozu-command-lib", "command"),
    "lib": ("sozu-lib", "lib"),
    "bin": ("sozu", "bin"),
}
_dumped = {}
_index = {}


def setup():
    p = subprocess.run(["cargo", "+nightly", "--version"], capture_output=True, text=True)
    if p.returncode != 0:
        return False, "nightly toolchain missing"
    for s in ("/usr/bin/z3", "cvc5"):
        if shutil.which(s) is None:
            return False, "%s missing" % s
    return True, "nightly %s, z3 + cvc5 present" % p.stdout.split()[1]


def dump(crate):
    """MIR text of one crate of REPO's current working tree (regenerated on every run)"""
    if crate in _dumped:
        return _dumped[crate]
    pkg, sub = CRATES[crate]
    os.makedirs(MIR_DIR, exist_ok=True)
    tdir = os.path.join(BUILD, "mir-target")
    # force rustc to run again for this crate (a fresh unit would print nothing)
    for fp in glob.glob(os.path.join(tdir, "debug", ".fingerprint", pkg.replace("-", "_") + "-*")) + \
            glob.glob(os.path.join(tdir, "debug", ".fingerprint", pkg + "-*")):
        shutil.rmtree(fp, ignore_errors=True)
    out = os.path.join(MIR_DIR, crate + ".mir")
    env = dict(os.environ)
    env.update({"CARGO_TARGET_DIR": tdir, "CARGO_NET_OFFLINE": "true", "CARGO_INCREMENTAL": "0"})
    env.pop("RUSTFLAGS", None)
    cmd = ["cargo", "+nightly", "rustc", "--offline", "-p", pkg, "--lib", "--", "-Zunpretty=mir",
           "-C", "debug-assertions=off", "-C", "overflow-checks=on"]
    if crate != "command":
        cmd[5:5] = []
    t0 = time.time()
    with open(out, "w") as f, open(out + ".err", "w") as e:
        p = subprocess.run(cmd, cwd=REPO, env=env, stdout=f, stderr=e)
    if p.returncode != 0 or os.path.getsize(out) < 1000:
        raise RuntimeError("MIR dump of %s failed (see %s.err)" % (crate, out))
    _dumped[crate] = out
    _index[crate] = parse.index_functions(out)
    load_consts(out)
    return out


def load_consts(path):
    """`const NAME: u8 = const 3_u8;` items of the dump -> engine.NAMED_CONSTS"""
    from .mir import engine
    pat = re.compile(r"^const ([\w:<>]+): (\w+) = const (\S+);$")
    with open(path, errors="replace") as f:
        for line in f:
            if line.startswith("const "):
                m = pat.match(line.rstrip("\n"))
                if m:
                    name = m.group(1).split("::")[-1]
                    engine.NAMED_CONSTS[name] = m.group(3)
                    if m.group(3) not in engine.NAMED_CONSTS_ALL.setdefault(name, []):
                        engine.NAMED_CONSTS_ALL[name].append(m.group(3))


def get_fn(crate, suffix, sig=None):
    """function whose MIR name ends with `suffix` and whose header contains `sig` (names
    carry span-derived impl labels that move with every edit, so the item path suffix and
    the signature are matched, never the label)"""
    path = dump(crate)
    idx = _index[crate]
    cands = []
    for n in sorted(idx):
        if n.endswith(suffix):
            for s, e, head in idx[n]:
                if sig is None or sig in head:
                    cands.append((s, e, head))
    if not cands:
        raise KeyError("no MIR function ending in %r (sig %r) in %s" % (suffix, sig, crate))
    if len(cands) > 1:
        raise KeyError("ambiguous MIR function %r (sig %r): %d candidates" % (suffix, sig, len(cands)))
    s, e, _ = cands[0]
    return parse.load_function(path, s, e)


def self_methods(crate, type_name):
    """resolver for Executor(inline=...): `Type::method` called on the analysed function's own
    self -> the MIR of that method when it is found unambiguously (else None: stays opaque)"""
    cache = {}

    def resolve(callee):
        plain = re.sub(r"::<.*?>(?=::|$)", "", callee)
        m = re.search(r"(?:^|::)%s::(\w+)$" % re.escape(type_name), plain)
        if not m:
            return None
        name = m.group(1)
        if name not in cache:
            try:
                dump(crate)
                cands = [(s0, e0) for n in _index[crate] if n.endswith("::" + name)
                         for (s0, e0, head) in _index[crate][n] if re.search(r"_1: &(mut )?([\w:]*::)?%s\b" % re.escape(type_name), head)]
                cache[name] = parse.load_function(_dumped[crate], *cands[0]) if len(cands) == 1 else None
            except Exception:
                cache[name] = None
        return cache[name]
    return resolve


def replay_crate_dir():
    src = os.path.join(VERIF, "replay")
    if REPO == "/repo":
        return src
    dst = os.path.join(BUILD, "replay-src")
    if os.path.exists(dst):
        shutil.rmtree(dst)
    shutil.copytree(src, dst, ignore=shutil.ignore_patterns("target", "Cargo.lock"))
    p = os.path.join(dst, "Cargo.toml")
    text = open(p).read().replace('"/repo/', '"%s/' % REPO)
    open(p, "w").write(text)
    return dst


def native_test(test_file, name_filter="", features=(), release=False, timeout=1800, rustflags=None):
    """run an ordinary cargo test of the replay crate against REPO; -> (failed: bool, log tail)"""
    d = replay_crate_dir()
    shutil.copy(os.path.join(REPO, "Cargo.lock"), os.path.join(d, "Cargo.lock"))
    env = dict(os.environ)
    env.update({"CARGO_TARGET_DIR": os.path.join(BUILD, "replay-native"), "CARGO_NET_OFFLINE": "true"})
    env.pop("RUSTFLAGS", None)
    if rustflags:
        # tests that need a verification hook are built with the cfg on, in their own target dir
        env["RUSTFLAGS"] = rustflags
        env["CARGO_TARGET_DIR"] = os.path.join(BUILD, "replay-native-verif")
    cmd = ["cargo", "test", "--offline", "--test", test_file]
    if features:
        cmd += ["--features", ",".join(features)]
    if release:
        cmd.append("--release")
    if name_filter:
        cmd += ["--", name_filter]
    p = subprocess.run(cmd, cwd=d, env=env, capture_output=True, text=True, timeout=timeout)
    out = p.stdout + p.stderr
    ran = re.search(r"running [1-9]\d* tests?", out) is not None
    failed = ran and "test result: FAILED" in out
    built = "error: could not compile" not in out and "error[E" not in out
    keep = "\n".join(l for l in out.splitlines() if re.match(r"^(test |test result|error|thread .* panicked|assertion)", l))[-1500:]
    return {"ran": ran and built, "failed": failed, "log": keep}


def run(pid, mobs, tier, log_dir):
    results = []
    for ob in mobs:
        t0 = time.time()
        try:
            mod = importlib.import_module("vlib.mir.props." + ob["prop"])
            r = mod.run(ob, tier)
        except Exception as ex:  # Unsupported, parse errors, missing functions: never a pass
            import traceback
            r = {"verdict": "inconclusive", "why": "%s: %s" % (type(ex).__name__, ex),
                 "trace": traceback.format_exc()[-1500:]}
        r.setdefault("wall_s", round(time.time() - t0, 2))
        # "the function no longer has the shape this obligation reads" is never a finding:
        # such clauses make the obligation inconclusive, they are not reported as violations
        if r.get("verdict") == "counterexample" and r.get("text"):
            clauses = [c for c in r["text"].split("; ") if c.strip()]
            shape = [c for c in clauses if re.search(r"\bshape\b[ :(]|not found$|: shape ", c)]
            real = [c for c in clauses if c not in shape]
            if shape and not real:
                r = dict(r, verdict="inconclusive", why="; ".join(shape))
            elif shape:
                r = dict(r, text="; ".join(real), shape_notes=shape)
        results.append(r)
    return results


def replay_file(path):
    """re-run the obligation recorded in an engine-M replay file against the current tree"""
    import json
    rec = json.load(open(path))
    ob = dict(rec["params"])
    ob.setdefault("claim", "")
    ob.setdefault("bound", "")
    mod = importlib.import_module("vlib.mir.props." + rec["prop_module"])
    r = mod.run(ob, "quick")
    print(json.dumps({k: r.get(k) for k in ("verdict", "text", "witness")}, indent=1))
    if r.get("verdict") == "counterexample":
        print("REPRODUCED")
        return 1
    print("NOT REPRODUCED")
    return 0
