"""Property -> obligations.  Each obligation names the harness (engine K) or the MIR
obligation module (engine M), the bound it is decided within and what it claims."""

COMMON_TRUSTED = [
    "rustc/Kani 0.68 codegen to goto-C and CBMC 6.11 + CaDiCaL (engine K)",
    "nightly rustc -Zunpretty=mir and the MIR->SMT-LIB translator in /verif/vlib/mir (engine M; cross-checked z3 vs cvc5, translator validated on concrete vectors)",
    "hooks H1-H3 (--cfg sozu_verif): logging and metrics macros and push_queue/push_event compile to no-ops",
]
COMMON_ASSUMPTIONS = [
    "x86-64, usize = 64 bit, little endian",
    "allocation never fails (Kani default)",
    "dev-profile semantics: overflow checks on, debug_assert! live (every embedded sozu debug_assert on a driven path is an obligation)",
    "bounded: see coverage.bounds per obligation; nothing is claimed outside those bounds",
]


def K(name, bound, claim, functions, tier="quick", stubs=(), min_covers=1, cbmc_args=()):
    return {"engine": "kani", "name": name, "bound": bound, "claim": claim,
            "functions": list(functions), "tier": tier, "stubs": list(stubs),
            "min_covers": min_covers, "cbmc_args": list(cbmc_args)}


# CBMC treats arrays above 64 elements through the array theory (no constant propagation
# per element); sozu's 232-byte PROXY staging buffer etc. need per-element treatment
FS256 = ["--max-field-sensitivity-array-size", "256"]


def M(name, bound, claim, functions, tier="quick", **kw):
    d = {"engine": "mir", "name": name, "bound": bound, "claim": claim,
         "functions": list(functions), "tier": tier}
    d.update(kw)
    return d


CH = ["command/src/channel.rs", "command/src/buffer/growable.rs"]

REGISTRY = {}
HOOK_COMMITS = [
    "038e1f7 verif hook H1: logging macros compile to nothing under --cfg sozu_verif",
    "2b2dd03 verif hook H2: metrics macros record nothing under --cfg sozu_verif",
    "30c0265 verif hook H3: push_queue/push_event skip the QUEUE thread-local under --cfg sozu_verif",
    "8194c1c verif hook H4 (mux): public wrappers for private H2/pkawa/converter/serializer kernels under --cfg sozu_verif",
    "80728f6 verif hook H4 (router): public wrapper for select_tree_rule under --cfg sozu_verif",
    "7aed797 verif hook H4 (state): public wrapper for diff_map under --cfg sozu_verif",
    "656ba2e verif hook H5: HttpsProxy::verif_listener accessor under --cfg sozu_verif (replay tests read listener tags)",
    "4f582a1 verif hook H6: verif_stop_task_on_finish under --cfg sozu_verif (runs the private StopTask::on_finish for a replay test)",
]

REGISTRY["C11"] = {
    "engine": "kani+mir",
    "technique": "bounded model checking (Kani/CBMC, SAT) of Channel framing + growable Buffer; symbolic execution of the MIR of Channel::writable into SMT (z3 + cvc5) for the would-block readiness protocol",
    "level_text": "CBMC decides, for all byte contents / prefixes / split points within the stated small sizes, that the real Channel::{write_message,read_message} and Buffer code re-frames messages exactly once, in order, intact, classifies malformed prefixes, never panics or indexes out of bounds (incl. the unsafe ptr::copy blocks) and never grows past max_buffer_size. Bounded, not a proof. Engine M additionally decides the readiness protocol of Channel::writable (WRITABLE interest kept until the buffer was seen empty).",
    "level_note": "Channel::writable (real socket, not Kani-able) is decided by engine M for its readiness protocol only. Sizes are small and concrete (buffers 8..32 bytes, payloads <= 4 bytes); the socket syscalls are replaced by direct delivery into front_buf; message codec is a 4-byte stand-in. See evidence coverage.bounds / outside_bounds.",
    "rule": "C11: one harness per buffer op family / framing scenario.",
    "trusted_base": ["harness message codec `Raw` (≤4 raw bytes, 0xFF-first = undecodable) stands in for prost-generated WorkerRequest/Response"],
    "assumptions": ["the kernel never delivers more bytes than the slice it was given (readable()'s own debug_assert)",
                    "socket never touched: bytes are moved into front_buf the way readable() does (space()+fill)"],
    "residual": "socket loops readable()/writable() (syscalls, WouldBlock at OS level), readable()'s own grow branch (same grow_size), decode of real WorkerRequest payloads, buffer capacities other than the concrete ones used (8/12/16/24/32), blocking mode.",
    "obligations": [
        K("c11::c11_buffer_fill_consume_invariant", "capacity 8 (concrete); fill/consume counts: all usize; pre-state: any state reachable by fill,consume,fill; unwind 10",
          "fill/consume move position/end by exactly min(n, room); position<=end<=capacity; data()/space() lengths agree", CH[1:]),
        K("c11::c11_buffer_shift_preserves_data", "capacity 8, contents symbolic, all (fill, consume) pairs; unwind 10",
          "auto-shift in fill/consume and shift() keep the pending bytes byte-identical and in order", CH[1:]),
        K("c11::c11_buffer_grow_shrink_preserve", "capacity 8 -> target in {2,4,8,16}; contents and positions symbolic; unwind 18",
          "grow/shrink keep pending bytes; shrink refuses iff data would not fit; capacity bookkeeping exact", CH[1:]),
        K("c11::c11_buffer_write_read_exact", "capacity 8, write <=4 symbolic bytes, read 4; unwind 10",
          "io::Write/io::Read impls append/remove exactly the bytes, short write == free space", CH[1:]),
        K("c11::c11_reframe_any_cut_3_0", "2 messages (3 and 0 payload bytes, contents symbolic), 32-byte buffers, 19-byte stream delivered in 2 pieces at a SYMBOLIC cut 0..19; unwind 9",
          "real writer -> real reader: both messages delivered exactly once, in order, byte-identical, nothing decoded before its last byte arrived, capacity <= max", CH, min_covers=2),
        K("c11::c11_reframe_grow_cuts", "2 messages (4+4 bytes, contents symbolic), 24-byte stream through 16-byte buffers (both sides grow to 32), cuts {3,12,16,21} concrete; unwind 18",
          "same, through the grow paths of write_delimited_message and try_read_delimited_message", CH),
        K("c11::c11_reframe_grow_all_cuts", "same, every cut 0..24 enumerated concretely; unwind 27",
          "same, every 2-piece split", CH, tier="thorough"),
        K("c11::c11_reframe_tight_all_cuts", "messages of 1 and 2 bytes, buffers 12 -> max 24, every cut 0..19 concrete; unwind 21",
          "same, with the ceiling just above the traffic (grow clipped at max)", CH, tier="thorough"),
        K("c11::c11_bad_prefix_is_error_not_panic", "all 8-byte prefixes + 0..8 further symbolic bytes, buffer 16, max 32; unwind 20",
          "declared < 8 => MessageLengthUnderDelimiter and prefix dropped; > max => MessageTooLarge; incomplete => NothingRead with buffer untouched; never a panic / OOB; capacity <= max", CH, min_covers=5),
        K("c11::c11_under_delimiter_resyncs", "all bad lengths 0..7 followed by one valid 2-byte message; unwind 20",
          "after an under-delimiter prefix the following valid frame is delivered intact", CH),
        K("c11::c11_undecodable_frame_not_wedged", "complete frame with 1..3 undecodable payload bytes followed by a valid frame; unwind 20",
          "undecodable payload => InvalidProtobufMessage, and the channel is not wedged: the next read_message yields the following frame", CH),
        K("c11::c11_write_grow_bounded_boundaries", "back buffer 12 -> max 24; (earlier 9-byte frames, drained bytes) in {(1,0),(1,9),(2,5),(2,7),(2,9),(2,14)} concrete, new message 4 symbolic bytes; unwind 14",
          "write: Ok => exactly 8+len more pending bytes right behind the old ones; MessageTooLarge only when it cannot fit under max and buffer untouched; earlier bytes intact; capacity <= max", CH),
        K("c11::c11_write_grow_bounded_len4", "same, ALL (frames 0..2, drained 0..9*frames) positions enumerated concretely, contents symbolic; unwind 21",
          "as above, every drain offset", CH, tier="thorough"),
        K("c11::c11_write_grow_bounded_len0", "same with an empty payload (8-byte frame)", "as above, empty message", CH, tier="thorough"),
        M("c11_writable_keeps_interest", "whole Channel::writable (28 blocks), loop unrolled 2x; socket write and buffer calls uninterpreted, Ready bit algebra exact", "WRITABLE interest is dropped only after available_data() == 0 was observed with no write since; a write error that still returns Ok clears the WRITABLE readiness bit", CH + ["command/src/ready.rs"], prop="c11m", which="writable_interest"),
    ],
}

PP = ["lib/src/protocol/proxy_protocol/header.rs", "lib/src/protocol/proxy_protocol/parser.rs"]
EX = ["lib/src/protocol/proxy_protocol/expect.rs"] + PP
_win = "window model: v4 upgrades exactly when 28 bytes are in, v6 at 52 (window 28 then 52); socket reads never go past the header; addresses recorded == header's; metrics.bin == bytes read"
REGISTRY["C18"] = {
    "engine": "kani+mir",
    "technique": "bounded model checking (Kani/CBMC, SAT) of the PROXY v2 codec, nom parser and ExpectProxyProtocol::readable over a scripted socket; symbolic execution of the MIR of the four Pipe relay handlers into SMT (z3 + cvc5) for the would-block readiness protocol",
    "level_text": "CBMC decides, for all IPv4/IPv6 addresses, ports and payload bytes, that HeaderV2::into_bytes emits the exact v2 wire layout and parse_v2_header inverts it; that the parser is total on every input up to 60 bytes (no panic, exact consumption, error classes); and that ExpectProxyProtocol::readable over an in-memory socket upgrades at exactly the header end for the listed fragmentations, closes on malformed input and records the header's addresses. Bounded, not a proof. Engine M additionally decides the would-block readiness protocol of the four Pipe relay handlers.",
    "level_note": "Fragmentations are enumerated concretely (chunk sizes per wake-up), header control bytes concrete, address and payload bytes symbolic; Pipe/splice relay, send-mode socket loop and relay mode are outside the claim.",
    "rule": "C18: one harness per codec direction / parser bound / fragmentation scenario.",
    "trusted_base": ["scripted in-memory SocketHandler (returns Continue when the slice was filled, else WouldBlock) stands in for the kernel socket"],
    "assumptions": ["SocketHandler::socket_read never returns more than the slice it was given (readable()'s own debug_assert)"],
    "residual": "Pipe byte movement (buffer fill/consume, half-close ordering, back-pressure beyond the would-block readiness protocol), splice, SendProxyProtocol::back_writable socket loop, RelayProxyProtocol, fragmentations other than the enumerated ones, PROXY v1 (unused).",
    "obligations": [
        K("c18::c18_ppv2_roundtrip_v4", "all IPv4 src/dst addresses and ports, both commands; unwind 17",
          "into_bytes == spec layout byte for byte (sig, ver|cmd, 0x11, len 12, addrs, ports), len()==28, parse_v2_header(into_bytes(h)) == (empty rest, h)", PP),
        K("c18::c18_ppv2_roundtrip_v6", "all IPv6 src/dst addresses (flowinfo/scope 0) and ports, both commands; unwind 18",
          "same for the 52-byte IPv6 header", PP),
        K("c18::c18_ppv2_mixed_family_is_unspec", "all v4/v6 mixed pairs; unwind 14",
          "mixed families degrade to a well-formed 16-byte UNSPEC header that parses back", PP),
        K("c18::c18_ppv2_parser_total_32", "every input of 0..32 bytes; unwind 18",
          "no panic; Ok => consumed == 16+declared and fields == input bytes; Incomplete only when frame bytes are missing or the declared block is shorter than the family needs; Error never for a well-formed frame; bad signature/command/family => Error", PP, min_covers=5),
        K("c18::c18_ppv2_parser_total_60", "every input of 0..60 bytes (covers full IPv6 headers and TLV tails); unwind 18",
          "same", PP, tier="thorough", min_covers=5),
        K("c18::c18_expect_window_v4_one_segment", "28-byte v4 header (all addresses/ports) + 36 symbolic payload bytes in one segment; FS256", _win, EX, cbmc_args=FS256),
        K("c18::c18_expect_window_v4_split_16_12", "same, header delivered 16 + 12", _win, EX, cbmc_args=FS256),
        K("c18::c18_expect_window_v6_one_segment", "52-byte v6 header (all addresses/ports) + 12 payload bytes in one segment", _win, EX, cbmc_args=FS256),
        K("c18::c18_expect_window_v6_split_29", "same, delivered 29 + rest (crosses the 28-byte stage)", _win, EX, cbmc_args=FS256),
        K("c18::c18_expect_window_v4_13_0_15", "v4 header delivered 13 + (empty wake-up) + 15 + payload", _win, EX, cbmc_args=FS256),
        K("c18::c18_expect_window_three_pieces", "v4: [0,12,4,..] [13,0,15,..] [27,1,..]; v6: [12,16,24] [28,0,24] [51,1,..] incl. empty wake-ups", _win, EX, cbmc_args=FS256),
        K("c18::c18_expect_window_v4_all_cuts", "v4 header cut at every position 0..28", _win, EX, tier="thorough", cbmc_args=FS256),
        K("c18::c18_expect_window_v6_boundary_cuts", "v6 header cut at {0,1,12,13,16,27,28,29,40,51,52}", _win, EX, tier="thorough", cbmc_args=FS256),
        K("c18::c18_expect_bad_signature_first_byte_closes", "any wrong first signature byte, 1-byte first segment", "malformed => Close at once, no address recorded, never Upgrade", EX, cbmc_args=FS256),
        K("c18::c18_expect_bad_signature_last_byte_closes", "any wrong 12th signature byte, delivered 5+7+rest", "same", EX, cbmc_args=FS256),
        K("c18::c18_expect_bad_command_closes", "any ver/cmd byte other than 0x20/0x21, delivered 12+1+rest", "same", EX, cbmc_args=FS256),
        K("c18::c18_expect_bad_family_closes", "any family nibble > 2 (UNIX, reserved)", "same (closes once the declared block is in)", EX, cbmc_args=FS256),
        K("c18::c18_expect_no_overread_local_unspec", "16-byte LOCAL/UNSPEC header + 48 symbolic payload bytes in one segment",
          "bytes pulled from the socket == header length (payload is not consumed and dropped)", EX, cbmc_args=FS256),
        K("c18::c18_expect_no_overread_inet_tlv", "36-byte INET header with 8-byte TLV tail + payload in one segment",
          "bytes pulled from the socket == header length", EX, cbmc_args=FS256),
        M("c18_pipe_wouldblock_readiness", "Pipe::readable / writable / backend_readable / backend_writable (buffered path), loops unrolled once, socket I/O and buffers uninterpreted, Ready bit algebra exact", "a handler that saw WouldBlock and returns has cleared the event bit of that side and direction; on the write side it has not dropped the WRITABLE interest (pending bytes stay scheduled) and the event bit is cleared only on a would-block", ["lib/src/protocol/pipe.rs", "lib/src/socket.rs", "command/src/ready.rs"], prop="c18m", which="wouldblock"),
        M("c18_pipe_keeps_session_while_inflight", "whole Pipe::check_connections (43 blocks): both statuses, both readiness words, buffer fill levels and splice counters symbolic", "frontend status in {Normal, WriteOpen} and response bytes in flight (backend_buffer non-empty, backend event READABLE, or splice pipe non-empty) => true, for every backend status incl. Closed; symmetrically for request bytes while the backend can still receive", ["lib/src/protocol/pipe.rs", "command/src/ready.rs"], prop="c18m", which="inflight"),
    ],
}

PA = ["lib/src/protocol/mux/parser.rs"]
SE = ["lib/src/protocol/mux/serializer.rs"] + PA
H2 = ["lib/src/protocol/mux/h2.rs"]
REGISTRY["C15"] = {
    "engine": "kani+mir",
    "technique": "bounded model checking (Kani/CBMC, SAT) of the nom HTTP/2 frame decoder, the frame serializers and the flood-detector step; symbolic execution of the MIR of two stateful guards (slot shrink, CONTINUATION buffer fit) into SMT (z3 + cvc5)",
    "level_text": "CBMC decides, for every frame header (all 9-byte values, all max_frame_size) and every frame body of the listed small sizes with symbolic flags/length/stream id/bytes, that frame_header/frame_body never panic (all slice indexing, arithmetic and sozu's own debug_assert! post-conditions), consume exactly 9 + payload_len bytes or return an error of the RFC 9113 class, and that gen_* outputs parse back; one step of H2FloodDetector from an arbitrary counter state gives a violation exactly when a counter is above its threshold. Bounded, not a proof. Engine M additionally decides that the stream-slot vector only loses trailing recycled slots and that a CONTINUATION payload is expected only if it fits the remaining buffer (else GOAWAY).",
    "level_note": "Engine M adds two stateful guards the stateless decoder harnesses cannot see. Body buffers are 12..20 bytes; SETTINGS / PRIORITY_UPDATE payload lengths are enumerated (heap vectors); stateful connection behaviour (ConnectionH2 with HashMap/slab/sockets), HPACK decoder internals and the Prioriser are outside the claim.",
    "rule": "C15: one harness per frame type / encoder / detector step.",
    "trusted_base": ["std::time::Instant::{now,elapsed} replaced by a monotone stub clock (elapsed is symbolic whole seconds until now() is called, then 0)"],
    "assumptions": ["flood detector pre-state: counters arbitrary but lifetime RST counter < u64::MAX and abusive <= total (the representation invariant; saturation is unreachable before the cap trips)"],
    "residual": "all stateful robustness (frame in unexpected connection state, slot reuse after remove_dead_stream, GOAWAY draining, MAX_LOOP_ITERATIONS backstop), Prioriser bound (HashMap), HPACK decode, header-list budget accounting inside the HPACK callback.",
    "obligations": [
        K("c15::c15_frame_header_total", "every input of 0..12 bytes, every max_frame_size: u32; unwind 6",
          "no panic; Ok => exactly 9 bytes consumed, fields == wire bytes, reserved bit masked, payload_len <= max, stream-id parity rule per type; Err classes: oversize => FRAME_SIZE_ERROR, bad stream id => PROTOCOL_ERROR", PA, min_covers=5),
        K("c15::c15_body_data", "DATA: symbolic payload_len (u32) / flags / stream id, 0..20 body bytes; unwind 6",
          "Ok => consumed == payload_len and the payload slice is exactly payload[pad-byte .. len - pad] (no padding leak, no byte dropped); complete payload is only rejected for bad padding, as PROTOCOL_ERROR", PA, min_covers=3),
        K("c15::c15_body_headers", "HEADERS: symbolic len/flags (PADDED, PRIORITY, END_*), 0..20 bytes; unwind 6",
          "Ok => exact consumption; fragment == payload minus pad byte, 5-byte priority and trailing padding; flags mapped; reject iff padding+priority do not fit", PA, min_covers=2),
        K("c15::c15_body_fixed_size_frames", "PRIORITY / RST_STREAM / PING / WINDOW_UPDATE / GOAWAY: symbolic len/flags, 0..16 bytes; unwind 10",
          "wrong size => FRAME_SIZE_ERROR; right size and bytes present => Ok with fields == wire bytes (31-bit masks applied), exact consumption", PA, min_covers=3),
        K("c15::c15_body_settings", "SETTINGS payload_len in {0,6,7,12,18}, symbolic flags and entry bytes, 0..20 bytes; unwind 6",
          "len % 6 != 0 or ACK with payload => FRAME_SIZE_ERROR; else one entry per 6 bytes with id/value == wire bytes, exact consumption", PA),
        K("c15::c15_body_settings_cap", "every payload_len with more than 64 entries; unwind 4", "refused with FRAME_SIZE_ERROR before allocating", PA),
        K("c15::c15_body_push_continuation_unknown", "PUSH_PROMISE / CONTINUATION / unknown types > 0x10, symbolic len, 0..12 bytes; unwind 6",
          "PUSH_PROMISE always PROTOCOL_ERROR; CONTINUATION and unknown frames consume exactly payload_len", PA, min_covers=2),
        K("c15::c15_body_priority_update", "PRIORITY_UPDATE payload_len in {3,4,7,1029}; unwind 6",
          "< 4 => FRAME_SIZE_ERROR; value > 1024 => PROTOCOL_ERROR; else exact consumption, 31-bit stream id, value length", PA),
        K("c15::c15_inverse_rst_stream", "all stream ids, the 14 error codes; unwind 10", "gen_rst_stream output is 13 bytes and parses back to the same fields (reserved bit masked)", SE),
        K("c15::c15_inverse_window_update", "all stream ids, all increments; unwind 10", "gen_window_update output parses back; increment masked to 31 bits", SE),
        K("c15::c15_inverse_goaway_ping", "all last-stream ids, 14 codes, all 8-byte ping payloads; unwind 10", "gen_goaway / gen_ping_acknowledgement outputs parse back", SE),
        K("c15::c15_error_class_mapping", "all u32 codes; all 14 H2 errors as Error/Failure; unwind 4", "H2Error <-> u32 is a bijection on 0..=0xd; error_nom_to_h2 preserves the H2 class, maps everything else to PROTOCOL_ERROR", PA + H2),
        K("c15::c15_flood_check_step", "arbitrary counters (13 fields), arbitrary validated config, arbitrary elapsed seconds; unwind 4",
          "check_flood: window counters halve exactly on expiry and never grow, lifetime counters never decay, violation returned <=> some counter above its threshold, always ENHANCE_YOUR_CALM with count > threshold", H2,
          stubs=["std::time::Instant::now", "std::time::Instant::elapsed"], min_covers=2),
        K("c15::c15_flood_rst_lifetime_step", "arbitrary counters/config, response_started and emitted symbolic; unwind 4",
          "record_rst_lifetime / record_rst_emitted: +1 saturating on exactly the right counters, violation <=> above cap", H2,
          stubs=["std::time::Instant::now", "std::time::Instant::elapsed"], min_covers=2),
        M("c15_streams_shrink_trailing_only", "Context::shrink_trailing_recycle + its closure, loop unrolled 2x", "self.streams is only mutated by Vec::pop, each right after last() was tested, and the test is `state == StreamState::Recycle` (promoted constant read from the dump)", ["lib/src/protocol/mux/mod.rs", "lib/src/protocol/mux/stream.rs"], prop="c15m", which="shrink"),
        M("c15_continuation_fits_or_goaway", "whole ConnectionH2::handle_continuation_header_state (40 blocks)", "expect_read is armed only after payload_len <= zero.storage.available_space() was observed; a larger payload ends in goaway()", ["lib/src/protocol/mux/h2.rs"], prop="c15m", which="contfit"),
    ],
}

RT = ["lib/src/router/mod.rs"]
REGISTRY["C04"] = {
    "engine": "kani+mir",
    "technique": "bounded model checking (Kani/CBMC, SAT) of rule identity, match contracts and the path/method selection kernel of Router::lookup; symbolic execution of the MIR of TrieNode::lookup_with_path and Router::{add,remove}_{pre,post}_rule into SMT (z3 + cvc5) for host precedence per trie node and order stability of the pre/post lists",
    "level_text": "CBMC decides, for all PREFIX/EQUALS path rules over 1..2 symbolic ASCII bytes, method classes {any, GET, POST}, exact/wildcard/any host rules and all probe paths of 0..3 bytes, that rule equality is exactly kind+string (the identity add/remove use), that the match functions honour their contracts, and that select_tree_rule returns the rule of greatest documented precedence (EQUALS > longest PREFIX, method-specific > method-agnostic) for both insertion orders of two rules. Bounded, not a proof. Engine M additionally decides host precedence for one node of the trie walk and order stability of the pre/post rule lists.",
    "level_note": "Regex rules (regex crate) and the host trie (std HashMap) are outside CBMC's reach. Engine M decides host precedence for one node of the trie walk (exact child, else the wildcard whenever it applies with no regex sibling consulted, else regex siblings in list order; recursion, map lookup and regex matching uninterpreted) and that the pre/post rule lists are only mutated by order-preserving Vec operations at the looked-up position. Trie pruning on removal and cross-host independence over whole tries are not decided. Strings are <= 2 bytes, leaves hold 2 rules.",
    "rule": "C04: one harness per identity relation / match contract / pair-of-rules selection.",
    "trusted_base": [],
    "assumptions": ["a leaf never holds two rules with the same (path, method) identity (add_tree_rule de-duplicates; proven sound by c04_path_rule_identity)"],
    "residual": "host trie as a data structure (pattern_trie.rs: insertion, pruning on removal, unrelated add/remove never changes a route; REGEX path rules; pre/post list order (Vec scan, reached only through Router which owns the trie); leaves with more than 2 rules.",
    "obligations": [
        K("c04::c04_path_rule_identity", "two PREFIX/EQUALS rules over 2 symbolic ASCII bytes each; unwind 5",
          "== is reflexive (on clones), symmetric, and a == b <=> same kind and same string", RT, min_covers=2),
        K("c04::c04_path_rule_identity_lengths_differ", "rules of 1 vs 2 bytes; unwind 5", "rules with different strings are never equal; each equals its clone", RT),
        K("c04::c04_method_domain_rule_identity", "MethodRule in {any,GET,POST}; DomainRule in {Any, Exact(2 bytes), Wildcard(2 bytes)}; unwind 6",
          "equality is exactly same class (+ same string)", RT),
        K("c04::c04_matches_contract", "rule over 2 symbolic bytes, probe path 0..3 symbolic bytes; unwind 6",
          "Prefix(n) => n == prefix.len() <= path.len() and path starts with it; Equals => path == pattern; None otherwise; MethodRule None => All, same => Equals, other => None", RT),
        K("c04::c04_domain_matches_contract", "host 0..5 symbolic bytes vs *.io / a.io / Any; unwind 8",
          "wildcard matches exactly one non-empty dot-free leftmost label; exact is byte equality", RT),
        K("c04::c04_selection_order_independent_2_2", "two rules (kind, 2-byte string, method class symbolic), probe path 0..3 bytes, method GET; unwind 6",
          "select_tree_rule([r1,r2]) == select_tree_rule([r2,r1]) == the rule with the greatest (EQUALS>PREFIX, length, method-specific) key", RT, min_covers=3),
        K("c04::c04_selection_order_independent_1_2", "same with a 1-byte and a 2-byte rule (nested prefixes)", "same", RT, min_covers=3),
        M("c04_trie_node_precedence", "whole TrieNode::lookup_with_path (60 blocks), regex loop unrolled 2x; children.get, Regex::is_match and the recursive call uninterpreted", "exact child => the walk continues there and nothing else is consulted; no child and (prefix exhausted, wildcard present, wildcards accepted) => no regex sibling is consulted and no regex subtree entered; regex siblings in list order, recursion only after a match", ["lib/src/router/pattern_trie.rs"], prop="c04", which="trie"),
        M("c04_pre_post_lists_keep_order", "Router::add_pre_rule / add_post_rule / remove_pre_rule / remove_post_rule, loops unrolled 2x", "every call handed &mut self.pre / &mut self.post is an order-preserving Vec operation; add pushes at the end; remove is Vec::remove at the index position() returned, only when it returned Some", RT, prop="c04", which="prepost"),
    ],
}

CV = ["lib/src/protocol/mux/converter.rs", "lib/src/protocol/mux/serializer.rs", "lib/src/protocol/mux/parser.rs"]
TRACING_STUBS = ["tracing::__macro_support::__is_enabled -> false", "tracing_core::callsite::DefaultCallsite::register -> Interest::never", "tracing_core::event::Event::dispatch -> no-op"]
REGISTRY["C14"] = {
    "engine": "kani+mir",
    "technique": "bounded model checking (Kani/CBMC, SAT) of the DATA/HEADERS emission arithmetic of H2BlockConverter, stream-id allocation and settings clamps; per-pass window debit and WINDOW_UPDATE credit bookkeeping over MIR",
    "level_text": "CBMC decides, for every flow-control window (i32), every legal SETTINGS_MAX_FRAME_SIZE and every chunk length up to 2^30, that one DATA emission step of the real H2BlockConverter sends exactly min(len, window, max_frame_size) bytes, never more than either limit, decrements the window by exactly that, stalls iff the window is <= 0; that a header block is split into HEADERS+CONTINUATION frames each <= max_frame_size with END_HEADERS/END_STREAM on the right frames; that next_stream_id issues only legal, increasing, role-parity ids and stays exhausted; that advertised settings are clamped to RFC bounds and the emitted SETTINGS frame parses back. Bounded single steps, not a proof.",
    "level_note": "One converter step at a time; the caller's min(stream, connection) window selection and window bookkeeping in ConnectionH2::write_streams, WINDOW_UPDATE handling, MAX_CONCURRENT_STREAMS enforcement and HPACK table size live in ConnectionH2 (HashMap + sockets) and are outside the claim.",
    "rule": "C14: one harness per emission arm / allocator / clamp.",
    "trusted_base": ["tracing (used by loona-hpack) switched off by three Kani stubs"],
    "assumptions": ["max_frame_size in [16384, 2^24-1] (sozu validates the peer's SETTINGS_MAX_FRAME_SIZE before it reaches the converter)", "a chunk's (start,len) does not wrap u32 (it lives inside a kawa buffer)"],
    "residual": "ConnectionH2::write_streams window selection (min of stream and connection window) and post-write decrement, update_initial_window_size, queue_window_update coalescing, MAX_CONCURRENT_STREAMS, HPACK dynamic table size, replenishment policy over time.",
    "obligations": [
        K("c14::c14_data_budget_and_split", "window: all i32; max_frame_size: 16384..2^24-1; chunk (start,len) symbolic up to 2^30; one call; unwind 12",
          "sent == min(len, max(window,0), max_frame_size); sent <= window and <= max_frame_size; window' == window - sent; nothing emitted iff window <= 0 and then the chunk is returned whole to the front; frame header == DATA/this stream/payload_len == queued bytes", CV, stubs=TRACING_STUBS, min_covers=5),
        K("c14::c14_headers_split_small_frames", "10-byte header block (symbolic bytes), max_frame_size 3 and 4, END_STREAM symbolic; unwind 12",
          "every HEADERS/CONTINUATION payload <= max_frame_size; concatenation == block; END_HEADERS only on the last, END_STREAM only on the first", CV, stubs=TRACING_STUBS),
        K("c14::c14_headers_split_exact_and_larger", "same with max_frame_size 10 and 11 (single frame)", "same", CV, stubs=TRACING_STUBS),
        M("c14_window_update_rx", "whole ConnectionH2::handle_window_update_frame (64 blocks), window / increment / lookups symbolic", "connection and stream send windows: stored value == old + increment, never after an i32 overflow (overflow => goaway / reset_stream event), a window re-opening from <= 0 arms the writer and only then", ["lib/src/protocol/mux/h2.rs"], prop="c14"),
        K("c14::c14_stream_id_allocation", "all u32 watermarks, both roles, two successive calls; unwind 3",
          "issued id <= 2^31-1, strictly increasing, parity by role from an even watermark, None is final", ["lib/src/protocol/mux/h2.rs"], min_covers=2),
        K("c14::c14_connection_config_clamps", "all u32 triples / optional window; unwind 3",
          "advertised connection window in [65535, 2^31-1], max concurrent streams in [1,10000], shrink ratio >= 2; in-range values kept", ["lib/src/protocol/mux/h2.rs"]),
        K("c14::c14_settings_roundtrip", "all H2Settings values; unwind 10", "gen_settings output (57 bytes) parses back to the 8 (id,value) pairs sozu meant", CV + ["lib/src/protocol/mux/h2.rs"], tier="thorough"),
        M("c14_windows_debited_together", "whole ConnectionH2::write_streams (318 blocks), first pass of the per-stream loop", "after the converter ran, stream window := sat_sub(stream window, consumed) and connection window := sat_sub(connection window, consumed) with the same `consumed`, both inside the loop body and under the same guard", ["lib/src/protocol/mux/h2.rs"], prop="c14", which="debit"),
        M("c14_pending_credits_leave_when_written", "whole flush_pending_control_frames (107 blocks), loops unrolled once", "pending_window_updates is only mutated through HashMap::remove (a bulk clear only once the peer has hung up); ids are recorded as written only after gen_window_update returned Ok or for a zero increment", ["lib/src/protocol/mux/h2.rs"], prop="c14", which="credits"),
    ],
}

REGISTRY["C01"] = {
    "engine": "kani+mir",
    "technique": "bounded model checking (Kani/CBMC, SAT) of the byte-conservation kernels: DATA split, frame header codec, DATA unpadding, Readiness wake-up algebra; symbolic execution of the MIR of ConnectionH2::handle_data_frame into SMT (z3 + cvc5) for the receive-side buffer accounting",
    "level_text": "CBMC decides that the kernels every proxied body byte passes through conserve bytes: the converter's DATA split partitions a chunk into emitted part + pushed-back remainder, adjacent, in order, nothing duplicated (all windows/frame sizes/lengths); the 9-byte frame header codec is a bijection (all headers); DATA frame parsing returns exactly payload minus padding (all flags/lengths, 0..20 bytes); arm_writable/signal_pending_write always leave the session runnable for write (all 8-bit readiness states). Kernel level only. Engine M additionally decides, over the real MIR, the receive-side buffer accounting of handle_data_frame (slice rebased on the old head, head advanced by the wire length, credit in wire bytes) that one pass of Mux::ready's event loop with an idle client either runs a handler or leaves the loop, and that ConnectionH1::writable never clears a response kawa's storage buffer in its 100/103 hand-over arms (the final response may already be in it).",
    "level_note": "Receive side: engine M decides over handle_data_frame's real MIR that the payload slice is rebased on the buffer head from before the advance, that the head then advances by exactly the wire payload length (padding skipped, never replayed as body) and that flow-control credit counts wire bytes; and over Mux::ready that one pass of the event loop with an idle client cannot be a no-op that keeps the loop alive (the state that burns the iteration budget and closes the session mid-response). Nothing else here runs a Mux/ConnectionH2/Pipe with sockets: finalize_write, delay_close_for_frontend_flush, rustls write paths, socket partial-write loops, stream interleaving and kawa's H1 parser are outside the claim (heap-rich I/O state machines CBMC cannot hold).",
    "rule": "C01: one harness per kernel.",
    "trusted_base": ["tracing (used by loona-hpack) switched off by three Kani stubs"],
    "assumptions": ["max_frame_size in [16384, 2^24-1]", "Readiness words carry only the four known bits (check_invariants)"],
    "residual": "whole-session byte conservation: socket_write/socket_write_vectored loops, finalize_write, close-after-flush ordering, buffer pool sizing, H1 chunk serialisation (std formatting), all protocol pairings end to end.",
    "obligations": [
        K("c14::c14_data_budget_and_split", "window: all i32; max_frame_size: 16384..2^24-1; chunk (start,len) up to 2^30; unwind 12",
          "emitted slice starts at the chunk start, remainder starts right after it and has length len - sent, remainder is pushed to the FRONT of the queue, later blocks keep their order", CV, stubs=TRACING_STUBS, min_covers=5),
        K("c14::c01_frame_header_roundtrip", "all payload_len < 2^24, 10 frame types, all flags, all stream ids; unwind 6",
          "wire layout exact; frame_header(gen_frame_header(h)) == h with the reserved bit cleared; only the stream-id parity rule can reject", CV, min_covers=2),
        K("c15::c15_body_data", "DATA: symbolic payload_len/flags/stream id, 0..20 body bytes; unwind 6",
          "payload slice == payload[pad byte .. len - pad]: padding never leaks into the body, no body byte dropped; END_STREAM mapped", PA, min_covers=3),
        K("c14::c01_readiness_never_loses_writable", "all (event, interest) over the 4 known bits; unwind 3",
          "after arm_writable the filtered readiness contains WRITABLE; signal_pending_write sets only the event bit; no other bit changes", ["lib/src/lib.rs"], min_covers=2),
        M("c01_h2_data_rx_buffer_accounting", "whole ConnectionH2::handle_data_frame (112 blocks); payload slice, wire length, head symbolic; lookups / resets / content-length bookkeeping uninterpreted", "slice.start := payload.start + old head; head := old head + wire_payload_len; both on exactly the append paths, with a chunk queued; received_bytes_since_update grows by the wire length", ["lib/src/protocol/mux/h2.rs"], prop="c01", which="data_rx"),
        M("c01_ready_no_silent_spin", "whole Mux::ready (370 blocks), every loop unrolled once (one full pass of the inner event loop, up to 2 backends), Ready/Readiness bit algebra modelled exactly, handlers uninterpreted", "with the client idle (filtered frontend readiness empty) a pass of the inner loop either runs a connection handler or leaves the loop: no state lets it repeat unchanged until MAX_LOOP_ITERATIONS closes the session with the response still buffered", ["lib/src/protocol/mux/mod.rs", "lib/src/lib.rs", "command/src/ready.rs"], prop="c01", which="ready_spin"),
        M("c01_interim_response_keeps_storage", "whole ConnectionH1::writable (every loop unrolled once), Ready/Readiness bit algebra modelled exactly, callees uninterpreted", "with the response status line a 100 or 103 (the interim hand-over arms) no kawa::Buffer::clear on a response kawa's storage is reachable: Kawa::clear resets the parsed blocks only, the bytes of the final response already read stay in the buffer", ["lib/src/protocol/mux/h1.rs"], prop="c01", which="interim_storage"),
    ],
}

PK = ["lib/src/protocol/mux/pkawa.rs"]
REGISTRY["C03"] = {
    "engine": "kani+mir",
    "technique": "bounded model checking (Kani/CBMC, SAT) of the H2->H1 header validation predicates against an RFC 9113 section 8.2 reference (differential, one-sided); symbolic execution of the MIR of the trailer callback and of write_regular_header into SMT (z3 + cvc5)",
    "level_text": "CBMC decides, for every header name of 0..4 bytes and value of 0..3 bytes, that sozu's classify_invalid_h2_header rejects whenever a reference predicate written from RFC 9113/9110 says the field is unsafe to serialise as an HTTP/1.1 header line (empty/non-token/uppercase name, NUL/CR/LF/CTL/DEL in value, te != trailers); that the five connection-specific names are caught in every letter case; that the byte predicates equal the RFC character classes on all 256 bytes; that a conflicting Content-Length is refused without side effect; that host is accepted as matching :authority only for the same origin. Bounded, predicates only. Engine M additionally decides that the trailer callback screens ':'-prefixed names itself, that Content-Length digits go through the overflow-rejecting std parser, and what handle_trailer leaves queued for the HTTP/1.1 serialiser (two known findings).",
    "level_note": "Engine M adds the two places the Kani predicates are *used* with a twist: the trailer callback must screen ':'-names itself, and the Content-Length digits must go through the overflow-rejecting std parser. The HTTP/1.1 side (kawa's H1 parser, CL/TE conflicts on H1 frontends), HPACK decoding (loona-hpack), pseudo-header ordering/uniqueness over kawa storage and DATA-vs-Content-Length reconciliation in ConnectionH2 are outside the claim.",
    "rule": "C03: one harness per predicate family.",
    "trusted_base": ["the 20-line reference predicates in kani/src/c03.rs (written from RFC 9110 section 5.6.2 tchar, RFC 9113 section 8.2.1/8.2.2)"],
    "assumptions": ["host/authority without IPv6 literals in the host_matches_authority bound"],
    "residual": "H1 request parsing and serialisation (kawa), HPACK, pseudo-header presence/uniqueness/order (store_pseudo_header over kawa Store), :path form, content-length vs DATA reconciliation, trailers.",
    "obligations": [
        K("c03::c03_header_gate_vs_rfc", "names 0..4 symbolic bytes, values 0..3 symbolic bytes; unwind 6",
          "reference-unsafe => rejected (never the other way round); clean short lowercase tokens pass (non-vacuity)", PK, min_covers=3),
        K("c03::c03_connection_specific_any_case", "connection / proxy-connection / transfer-encoding / upgrade / keep-alive under every per-letter case mask; unwind 19",
          "each is recognised and rejected by the gate in any letter case; the name minus its last byte is not", PK),
        K("c03::c03_name_byte_predicate_exact", "all 256 byte values; unwind 3", "is_tchar == RFC 9110 tchar; has_invalid_name_byte == !tchar or uppercase; pseudo-value predicate == CTL or DEL", PK),
        K("c03::c03_pseudo_value_gate", "values of 0..4 symbolic bytes; unwind 6", "rejects iff some byte < 0x20 or == 0x7f (nothing that could break the H1 request line passes)", PK),
        K("c03::c03_content_length_conflict", "any prior BodySize, any new length; unwind 3", "a different prior length => refused and body_size untouched; otherwise accepted and recorded", PK, min_covers=2),
        K("c03::c03_host_authority_same_origin", "host and authority of 0..5 symbolic bytes, no '['; unwind 8",
          "accepted => same host part case-insensitively and never two different explicit ports; strip_port returns a prefix and removes only ':digits'", PK, min_covers=2),
        K("c03::c03_trim_ows_exact", "0..5 symbolic bytes; unwind 8", "result is the inner sub-slice without SP/HTAB at the ends; only whitespace is trimmed", PK),
        M("c03_trailer_names_screened", "whole per-field callback of handle_trailer (108 blocks); hpack, metrics, kawa pushes uninterpreted", "a field is pushed only after `name.starts_with(b\":\")` answered false; a ':'-name never reaches classify_invalid_h2_header (which skips name validation for such names) and marks the trailer block invalid", PK, prop="c03m", which="trailer_pseudo"),
        M("c03_content_length_parsed_by_std", "whole write_regular_header + its parse closure", "the length given to set_content_length is the Ok value of str::parse::<usize>; an unrepresentable value (>= 2^64) returns Err (no clamping / wrapping)", PK, prop="c03m", which="cl_parse"),
        M("c03_trailers_h1_framing", "whole handle_trailer (main function + per-field callback); kawa's H1 converter semantics (every Header block is written; `0\\r\\n` only for Flags.end_body on a chunked message) taken from the kawa 0.6.8 source", "the queuing of a trailer field, or a later removal of queued blocks, depends on kawa.body_size (nothing follows a fixed-length body); some Flags block built here can carry end_body = true (a chunked message gets its last chunk before the trailer section)", PK, prop="c03t", which="trailers_h1"),
    ],
}

ST = ["command/src/state.rs"]
REGISTRY["C06"] = {
    "engine": "kani+mir",
    "technique": "bounded model checking (Kani/CBMC, SAT) of the diff merge-join and of the Backend ordering it is fed with",
    "level_text": "CBMC decides, for all strictly increasing key sequences of length <= 3 on each side (keys and values symbolic u8), that the real state::diff_map iterator emits exactly the keys that differ, each once, in order, with the right Added/Removed/Changed kind, and nothing for equal inputs; and that response::Backend's Ord agrees with == (Equal iff all fields equal), is antisymmetric and transitive over small symbolic field domains. Bounded; the end-to-end 'apply diff(A,B) to A' on ConfigState is not executed by the solver (prost structs + BTreeMaps measured out of CBMC's reach) and is covered only by the native replay tests of the repaired finding. Engine M additionally decides, over ConfigState::diff's real MIR, the diff_map call-site precondition (both inputs sorted by the merge key), that per frontend kind every Remove is emitted before any Add, and that the listener comparisons compare the two stored listeners themselves.",
    "level_note": "Listeners/clusters/frontends/certificates sections of diff and worker convergence are outside the claim. diff_map is instantiated at K=u8,V=u8 (generic code, one instantiation).",
    "rule": "C06: merge-join exactness + ordering consistency.",
    "trusted_base": [],
    "assumptions": ["diff_map inputs have strictly increasing keys (BTreeMap iteration at every call site, by reading)"],
    "residual": "ConfigState::diff as a whole (which fields flow into each key; listener/cluster/frontend/certificate sections), acceptance of each emitted command by dispatch, worker resynchronisation.",
    "obligations": [
        K("c06::c06_diff_map_exact", "two sorted sequences of 0..3 (key,value) pairs, all u8 values; unwind 8",
          "every emitted (key, kind) is correct; keys strictly increasing (no duplicate); a key is emitted iff it differs between the sides", ST, min_covers=3),
        K("c06::c06_diff_map_identity_is_empty", "one sorted sequence of 0..3 pairs against itself; unwind 8", "diff(A, A) is empty", ST),
        K("c06::c06_backend_order_consistent", "two backends: cluster/backend id in {a,b}, all IPv4 addresses and ports, sticky in {None,a,b}, backup in {None,false,true}, weight symbolic; unwind 6",
          "cmp == Equal <=> ==; cmp(a,b) == reverse(cmp(b,a)); reflexive", ["command/src/response.rs"], min_covers=2),
        M("c06_diff_map_inputs_sorted", "all diff_map call sites of ConfigState::diff (regenerated MIR)", "both inputs of every diff_map call are BTreeMap iterations (the strictly-increasing-keys precondition of c06_diff_map_exact) and backends are joined on (cluster, backend_id, address); decided by inspecting the call-site types, no solver query", ST, prop="c06"),
        K("c06::c06_backend_order_transitive", "three backends differing in address/port/backup; unwind 6", "a<=b and b<=c => a<=c", ["command/src/response.rs"]),
        M("c06_removes_before_adds", "whole ConfigState::diff (597 blocks), every loop unrolled once more", "for HTTP / HTTPS / TCP / UDP frontends the Remove requests and the Add requests are emitted by different loops, the Remove loop first, both reachable", ST, prop="c06", which="order"),
        M("c06_listeners_compared_as_stored", "whole ConfigState::diff", "for each listener kind, the comparison made for an address present in both states takes the two BTreeMap entries themselves (one indexed from self, one from other) as operands", ST, prop="c06", which="listeners_compared"),
    ],
}

UF = ["lib/src/protocol/udp/flow.rs", "lib/src/protocol/udp/mod.rs"]
UM = ["lib/src/protocol/udp/manager.rs", "lib/src/protocol/udp/mod.rs"]
REGISTRY["C19"] = {
    "engine": "kani+mir",
    "technique": "bounded model checking (Kani/CBMC, SAT) of the per-flow UDP state machine (one step from an arbitrary flow state) and the affinity key; symbolic execution of the MIR of the UdpManager entry points into SMT (z3 + cvc5) for the admission gate, cap updates and the count-then-teardown protocol",
    "level_text": "CBMC decides, from an arbitrary UdpFlow state (all counters, caps, generation, PPv2 flags symbolic), that one datagram/touch step changes exactly the right saturating counter, always changes the timer generation (so a stale expiry never matches, incl. u64 wrap), that teardown_reason is Some exactly when a non-zero cap is reached (responses first) and fires on exactly the cap-th datagram, that the PPv2 prefix policy is never/every/exactly-first, that phases only move forward; and that FlowKey::from_src identifies exactly the source ip (and port when configured) for all IPv4/IPv6 addresses. Single inductive steps, so they hold for histories of any length. Engine M additionally decides the UdpManager's protocol around its containers: exact cap updates, the admission gate, count-then-teardown.",
    "level_note": "The manager's containers (HashMap<FlowKey,FlowId> + slab + VecDeque) are outside CBMC's reach; the engine-M obligations decide the manager's protocol around them with every container call uninterpreted: a slot is allocated only for an untracked key, not draining, after flows.len() < max_flows was observed; SetMaxFlows(n) stores exactly n; every counted datagram is followed by teardown_reason() on the updated flow and close_flow runs exactly when it says Some. Table/slab coherence over histories (close_flow key recomputation, handle_timeout sweep, generation comparison at expiry) is not decided.",
    "rule": "C19: one harness per flow method family.",
    "trusted_base": ["Instant values are a fixed origin (never compared by the flow); timeouts are whole seconds"],
    "assumptions": [],
    "residual": "UdpManager container coherence over histories: key -> flow -> backend stickiness across close/recreate, handle_timeout sweep, generation-token comparison at expiry, close_all; the shell in lib/src/udp.rs.",
    "obligations": [
        K("c19::c19_flow_datagram_step", "arbitrary established flow; one of on_client_datagram / on_backend_datagram / touch; unwind 4",
          "generation changes (wrapping +1) on every touch; exactly the right counter +1 saturating; phase unchanged", UF, min_covers=2),
        K("c19::c19_teardown_reason_exact", "arbitrary flow in any phase; unwind 4", "Some <=> a non-zero cap is reached; ResponsesReached takes precedence", UF, min_covers=2),
        K("c19::c19_cap_reached_exactly", "flow below its responses cap, one reply; unwind 4", "teardown fires on exactly the last allowed reply", UF, min_covers=2),
        K("c19::c19_proxy_protocol_policy", "arbitrary flags, two successive upstream datagrams; unwind 4", "disabled => never; every-datagram => always; else exactly the first", UF),
        K("c19::c19_phase_forward_only", "all legal (from,to) phase pairs; unwind 4", "set_phase moves strictly forward and sozu's transition debug_assert holds", UF),
        K("c19::c19_flowkey_affinity", "all IPv4/IPv6 source pairs, both affinity modes; unwind 18", "equal keys <=> equal ip (and port when keyed on it); key keeps the client's ip; port zeroed otherwise", UF, min_covers=2),
        M("c19_manager_config_exact", "whole UdpManager::on_config, event fully symbolic", "SetMaxFlows(n) / SetMaxRxDatagramSize(n) store exactly n, Drain stores true, each only for its own variant and on every path; table and slab untouched", UM, prop="c19m", which="config"),
        M("c19_manager_admission_gate", "whole UdpManager::on_client_datagram; extractor, table lookup, slab len uninterpreted (arbitrary results)", "slab insert => key untracked, !draining, an unmutated flows.len() < max_flows observation; slab and table inserts paired; tracked key => forward_on_existing_flow; every datagram has exactly one of {admit, forward, drop}", UM, prop="c19m", which="admission"),
        M("c19_manager_teardown_after_count", "forward_on_existing_flow, on_backend_resolved, on_backend_datagram; flow methods uninterpreted", "each counted datagram is followed by teardown_reason() taken after the count; close_flow <=> that answer is Some; a flow kept open is rescheduled", UM, prop="c19m", which="teardown"),
        M("c19_close_flow_guarded", "whole UdpManager::close_flow, map calls uninterpreted", "every table.remove(key) is preceded by table.get(same key) == Some(&flow_id) having held: closing a flow never unmaps another live flow that owns the key after an affinity change", UM, prop="c19m", which="close_guarded"),
        M("c19_shell_inflight_cleared_per_datagram", "UdpListenerSession::ingest_client (I/O shell), receive loop unrolled once more", "in every pass of the receive loop in_flight_flow is set to None before the manager sees the datagram", ["lib/src/udp.rs"], prop="c19m", which="shell_inflight"),
    ],
}

_c07 = "patch fully symbolic (every Option discriminant / payload free); BTreeMap::get_mut, validators, merge_custom_http_answers uninterpreted with arbitrary results; loops unrolled twice"
_c07claim = ("(a) no store through the listener reference on any path that returns Err; (b) every store writes the payload of the same-named patch field and only when that field is Some; "
             "(c) no listener field is written from a differently named patch field")
REGISTRY["C07"] = {
    "engine": "mir",
    "technique": "symbolic execution of the MIR of ConfigState::update_*_listener into SMT (z3 + cvc5): write events vs. Err return paths; worker-side add-frontend and listener-type decoding obligations over the same engine",
    "level_text": "For the four private listener-patch functions, every path of the real compiled MIR is encoded (guards merged at joins) with the patch fully symbolic and all callees uninterpreted; z3 and cvc5 both decide that no path returning Err contains a store through the listener reference (validate-then-mutate), that each store copies the same-named patch field and only when it is Some, and that no patch field is dropped. This is the whole function body, not a sample of patches; it is bounded only by loop unrolling (2) and by treating callees as arbitrary.",
    "level_note": "Also run on the worker-side HttpListener / HttpsListener::update_config (stores into self.config). Certificate add/replace partial effects (x509 + nested HashMap), the master's hash_state no-op check and worker-side notify-after-error are outside the claim. Aliasing between the listener reference and other places is assumed absent (it is a fresh get_mut result).",
    "rule": "C07: one obligation per update_*_listener function.",
    "trusted_base": ["field-name tables parsed from command/src/proto/command.rs (prost output, declaration order == MIR field index)"],
    "assumptions": ["uninterpreted callees do not write the listener unless they are handed a &mut into it (then they count as a write)"],
    "residual": "add_certificate / replace_certificate partial effects, master/worker drift, rejected commands other than listener patches.",
    "obligations": [
        M("c07_update_http_listener_atomic", _c07, _c07claim, ["command/src/state.rs"], prop="c07_atomic", mode="atomic", fn_suffix="::update_http_listener",
          listener_struct="HttpListenerConfig", patch_struct="UpdateHttpListenerConfig", replay_filter="http_patch"),
        M("c07_update_https_listener_atomic", _c07, _c07claim, ["command/src/state.rs"], prop="c07_atomic", mode="atomic", fn_suffix="::update_https_listener",
          listener_struct="HttpsListenerConfig", patch_struct="UpdateHttpsListenerConfig", replay_filter="https_patch"),
        M("c07_update_tcp_listener_atomic", _c07, _c07claim, ["command/src/state.rs"], prop="c07_atomic", mode="atomic", fn_suffix="::update_tcp_listener",
          listener_struct="TcpListenerConfig", patch_struct="UpdateTcpListenerConfig"),
        M("c07_update_udp_listener_atomic", _c07, _c07claim, ["command/src/state.rs"], prop="c07_atomic", mode="atomic", fn_suffix="::update_udp_listener",
          listener_struct="UdpListenerConfig", patch_struct="UpdateUdpListenerConfig"),
        M("c07_worker_http_listener_patch_atomic", _c07, "HttpListener::update_config (worker side): no store into self.config on any path that returns Err, stores copy the same-named patch field only when it is Some (the live listener cannot drift from the view on a rejected patch)", ["lib/src/http.rs"], prop="c07_atomic", mode="atomic", crate="lib", fn_suffix="::update_config", sig="&mut http::HttpListener",
          self_field="config", self_struct="HttpListener", self_struct_path="lib/src/http.rs", listener_struct="HttpListenerConfig", patch_struct="UpdateHttpListenerConfig", replay_test="c07_worker"),
        M("c07_worker_https_listener_patch_atomic", _c07, "same for HttpsListener::update_config", ["lib/src/https.rs"], prop="c07_atomic", mode="atomic", crate="lib", fn_suffix="::update_config", sig="&mut https::HttpsListener",
          self_field="config", self_struct="HttpsListener", self_struct_path="lib/src/https.rs", listener_struct="HttpsListenerConfig", patch_struct="UpdateHttpsListenerConfig", replay_test="c07_worker"),
        M("c07_worker_add_frontend_atomic", "HttpProxy::add_http_frontend and HttpsProxy::add_https_frontend, callees uninterpreted", "no method called on the listener through DerefMut (today: set_tags), other than the fallible router insertion itself, lies on a path that returns Err", ["lib/src/http.rs", "lib/src/https.rs"], prop="c07_front", which="worker_add"),
        M("c07_listener_type_decoded_fallibly", "ConfigState::remove_listener / activate_listener / deactivate_listener", "the request's `proxy` goes through ListenerType::try_from; on Err the function returns Err through `?` and no call / store touches the state", ST, prop="c07_front", which="listener_type"),
    ],
}

BS = ["bin/src/command/server.rs", "bin/src/command/requests.rs"]
REGISTRY["C09"] = {
    "engine": "mir",
    "technique": "symbolic execution of the MIR of the master's task-finishing functions into SMT (z3 + cvc5): flag propagation, verdict function, response accounting",
    "level_text": "The real compiled MIR of CommandHub::handle_finishing_task, WorkerTask::on_finish and DefaultGatherer::on_message is executed symbolically with every callee uninterpreted; z3 and cvc5 both decide that (1) the timed_out flag that reaches GatheringTask::on_finish equals the flag the run loop passed, on every path, and on_finish is called exactly once; (2) finish_ok is reached only with errors == 0 and not timed out, finish_failure only with a reason, and every returning path answers the client exactly once; (3) one worker message advances at most one terminal counter, by exactly one, and is archived exactly once. Composition of (1) and (2) is the property's 'silent worker => failure'. Also decided: (4) scatter_on counts every live worker it addresses in the gatherer's expected total whether or not the request could be queued; (5) the upgrade hand-over copies the four id counters verbatim; (6) each of the nine on_finish implementations of the bin crate sends at most one final answer on any path.",
    "level_note": "Single functions; the run loop's deadline test, worker close handling and interleavings of several clients are HashMap/mio state and are outside the claim. WorkerTask::on_finish's response-log loop is unrolled twice (its body only builds message strings).",
    "rule": "C09: one obligation per function.",
    "trusted_base": [],
    "assumptions": ["uninterpreted callees (audit emission, string building, client channel writes) do not change errors / timed_out"],
    "residual": "run loop scheduling, late/duplicate answers after in_flight purge, worker disconnect, hub liveness, what the other GatheringTask implementations (query / load-state / status tasks) put in their single answer.",
    "obligations": [
        M("c09_timeout_flag_propagates", "whole function, all paths; callees uninterpreted", "the flag operand of GatheringTask::on_finish equals the timed_out parameter on every path; on_finish is reached on every returning path", BS[:1], prop="c09", which="flag"),
        M("c09_verdict_function", "whole function; response loop unrolled 2x; callees uninterpreted", "finish_ok => errors == 0 and not timed_out; finish_failure => errors > 0 or timed_out; exactly one of them on every returning path", BS[1:], prop="c09", which="verdict"),
        M("c09_gatherer_accounting", "whole function; arbitrary counters and status", "at most one of ok/errors is written per message, each as old+1; the message is pushed to the response log on every path; has_finished is exactly ok + errors >= expected_responses (archived Processing notices do not count)", BS[:1], prop="c09", which="gatherer"),
        M("c09_scatter_registers_every_worker", "whole Server::scatter_on, worker loop unrolled once more; iterator, send, map insert uninterpreted", "a worker the liveness filter yields is sent the request, registered in in_flight and counted in the expected responses on every path through the loop body, whatever send reports", ["bin/src/command/server.rs"], prop="c09", which="scatter"),
        M("c09_upgrade_keeps_id_counters", "whole CommandHub::from_upgrade_data", "on the Ok path each of next_client_id / next_session_id / next_task_id / next_worker_id of the upgrade data is stored into the same-named field of the new Server (answers are routed by id strings that embed the task id)", ["bin/src/command/server.rs", "bin/src/command/upgrade.rs"], prop="c09", which="upgrade_ids"),
        M("c09_on_finish_answers_once", "every GatheringTask::on_finish in the bin crate (9 implementations)", "no two final-answer calls (finish_ok / finish_ok_with_content / finish_failure) are reachable on one path", ["bin/src/command/requests.rs", "bin/src/command/sessions.rs"], prop="c09", which="finish_once"),
    ],
}

REGISTRY["C20"] = {
    "engine": "mir",
    "technique": "symbolic execution of the MIR of Config::generate_config_messages and ConfigBuilder::populate_clusters into SMT (z3 + cvc5): listener loop unrolled with rustc's overflow checks as obligations; per-iteration emit-exactly-once and record-what-you-create obligations",
    "level_text": "The real compiled MIR of generate_config_messages is unrolled (TCP-listener loop 300 times quick / 600 thorough, symbolic list length through the uninterpreted Iterator::next results) and z3 and cvc5 both decide that none of the `count += 1` overflow checks can fail, i.e. the CONFIG-n ids stay strictly increasing and therefore distinct. Bounded: up to N TCP listeners and no other entry kind. For one iteration of every loop of generate_config_messages the solvers decide that a yielded item is pushed exactly once with one counter increment (nothing dropped, nothing duplicated); for populate_clusters that a default listener is created only for an address known_addresses lacks and is then recorded there under the protocol it was created for.",
    "level_note": "TOML parsing, defaults, 'exactly what the file declares', idempotent reload and the load-time constraint checks are string/container transformations through toml/serde and are outside the claim. Other list kinds share the same counter and increment statement shape but are unrolled 0 times.",
    "rule": "C20: id counter + per-iteration emission + default-listener bookkeeping.",
    "trusted_base": [],
    "assumptions": ["Iterator::next on a slice iterator returns Some for as many iterations as the solver likes (list length symbolic, up to the unrolling bound)"],
    "residual": "declared == loaded (toml/serde), what Cluster::generate_requests yields, constraint-violating neighbours rejected at load time, reload idempotence, counter range for lists other than the three unrolled, more than 600 entries.",
    "obligations": [
        M("c20_message_ids_do_not_wrap_tcp_add", "AddTcpListener loop unrolled 300x (thorough 600x), other loops 0x; list length symbolic",
          "no `count += 1` overflow check can fail: message ids CONFIG-0..n are strictly increasing, hence unique", ["command/src/config.rs"], prop="c20", unroll=300, unroll_thorough=600, loop_type="TcpListenerConfig", loop_ordinal=0),
        M("c20_message_ids_do_not_wrap_http_add", "AddHttpListener loop unrolled 300x (thorough 600x), other loops 0x",
          "same, for HTTP listeners", ["command/src/config.rs"], prop="c20", unroll=300, unroll_thorough=600, loop_type="HttpListenerConfig", loop_ordinal=0),
        M("c20_message_ids_do_not_wrap_tcp_activate", "ActivateListener(tcp) loop unrolled 300x (thorough 600x), other loops 0x",
          "same, for the activation messages", ["command/src/config.rs"], prop="c20", unroll=300, unroll_thorough=600, loop_type="TcpListenerConfig", loop_ordinal=1),
        M("c20_every_item_emitted_once", "whole generate_config_messages, first iteration of each of its loops, iterators uninterpreted", "an item the loop yields is pushed exactly once, with exactly one counter increment; push sites in MIR == push sites in the source", ["command/src/config.rs"], prop="c20", which="emitted"),
        M("c20_default_listener_recorded", "whole ConfigBuilder::populate_clusters (HTTP and TCP frontend loops, first iteration), map calls uninterpreted", "push_{tls,http,tcp}_listener only when known_addresses.get answered None; after an Ok the address is inserted into known_addresses with the protocol of the listener created", ["command/src/config.rs"], prop="c20", which="listeners"),
        M("c20_expect_proxy_agreement", "FileClusterConfig::to_cluster_config (TCP branch), frontend loop unrolled for two frontends, HashSet::contains answers free (e0, e1)", "the second frontend's conversion is reachable only when e0 == e1: mixed expect_proxy listeners are rejected in either order", ["command/src/config.rs"], prop="c20", which="proxy_agreement"),
        M("c20_cluster_knobs_verbatim", "HttpClusterConfig / TcpClusterConfig::generate_requests; struct literal fields tracked by position", "for every Option<integer|bool> knob present under the same name and type in the builder and in the Cluster message: discriminant and payload of the message field == those of the declared field", ["command/src/config.rs", "command/src/proto/command.rs"], prop="c20", which="verbatim"),
    ],
}

SV = ["lib/src/server.rs"]
REGISTRY["C08"] = {
    "engine": "kani+mir",
    "technique": "symbolic execution of the MIR of Server::notify / notify_proxys into SMT (answer-count over all paths) + bounded model checking (Kani) of the get_destinations routing table + MIR write-set comparison of the listener patch",
    "level_text": "z3 and cvc5 both decide, over every path of the real compiled MIR, that Server::notify queues exactly one final answer for every worker-level verb (closures that answer are analysed and counted) or delegates exactly once to notify_proxys, and that notify_proxys queues at most one final answer and leaves a request unanswered only when it has neither a proxy destination nor a listener special case - under the contract that listener verbs have no proxy destination, which two Kani harnesses pin on the real Request::get_destinations for every worker-reachable RequestType. A further MIR obligation shows the worker's ConfigState records every field of an accepted listener patch (the queryable view follows the behaviour).",
    "level_note": "Each proxy's own notify (http/https/tcp/udp: HashMap + sockets) returning exactly one response, the special-cased HardStop/SoftStop/ReturnListenSockets answers in read_channel_messages_and_notify, and equality of the worker's whole view with the master's are outside the claim. A verb with no destination and no special case (master-only verbs, empty request) gets no answer: stated, not claimed.",
    "rule": "C08: answer-count obligations per dispatcher function + routing-table contract.",
    "trusted_base": ["get_destinations contract is assumed inside the notify_proxys obligation and discharged by the Kani harnesses"],
    "assumptions": ["a call to push_queue is a final answer (WorkerResponse::ok / error / ok_with_content); Processing notices are emitted elsewhere"],
    "residual": "per-proxy notify implementations, master-only verbs reaching a worker, worker view == master view as whole states, routing/listening behaviour matching the view.",
    "obligations": [
        M("c08_notify_answers_once_or_delegates", "whole function (217 blocks), loops unrolled 2x, 11 answering closures analysed separately", "no path queues two answers of its own; every returning path queues an answer or delegates to notify_proxys; never delegates twice; a verb answered here falls through to notify_proxys only if notify_proxys has nothing to answer for it", SV, prop="c08", which="notify"),
        M("c08_notify_proxys_at_most_one_answer", "whole function (201 blocks); destination flags symbolic under the routing contract", "at most one final answer per path; zero answers only without destination and without listener special case", SV, prop="c08", which="notify_proxys"),
        K("c08::c08_destinations_listener_and_worker_level_verbs", "the 12 listener verbs + 9 worker-level verbs (default payloads, symbolic scalars); unwind 3", "no proxy destination (otherwise they would be answered twice)", ["command/src/request.rs"]),
        K("c08::c08_destinations_proxy_verbs", "the 21 proxy verbs; unwind 3", "frontend/certificate verbs -> exactly their proxy kind; cluster/backend/health/stop/status -> all four", ["command/src/request.rs"]),
        M("c08_http_listener_patch_recorded", _c07, "every patch field that has a same-named listener field is stored by ConfigState::update_http_listener on Ok paths (the view follows what the worker-side listener applies)", ["command/src/state.rs"], prop="c08", which="recorded", fn_suffix="::update_http_listener",
          listener_struct="HttpListenerConfig", patch_struct="UpdateHttpListenerConfig", replay_filter="accepted_patch"),
        M("c08_https_listener_patch_recorded", _c07, "same for ConfigState::update_https_listener", ["command/src/state.rs"], prop="c08", which="recorded", fn_suffix="::update_https_listener",
          listener_struct="HttpsListenerConfig", patch_struct="UpdateHttpsListenerConfig", replay_filter="accepted_patch"),
        M("c08_worker_add_cluster_applies_knobs", "whole Server::add_cluster", "every BackendMap::set_* call is reached on every returning path (a knob carried as None is applied as None, like ConfigState does)", SV, prop="c08", which="add_cluster_knobs"),
        M("c08_send_queue_discipline", "the queue closure of Server::send_queue, loop unrolled once more", "the response queue is only touched by pop_front / push_front; a response whose write_message returned Err is pushed back to the front, and only such a response", SV, prop="c08", which="queue_discipline"),
    ],
}

REGISTRY["C02"] = {
    "engine": "mir",
    "technique": "symbolic execution of the MIR of mux::shared::end_stream_decision, mux::router::Router::connect and Mux::timeout into SMT (z3 + cvc5)",
    "level_text": "z3 and cvc5 both decide that the real end_stream_decision is exactly the documented total table over (backend response started, response terminated, keep-alive backend, request consumed): forward the response only if one exists, abort (never 'terminated') when a keep-alive backend vanished mid-response, 502 iff no response and the request was consumed, retry only if nothing of the request was consumed, and no other status than 502; and that in Router::connect every backend connection attempt is preceded by the retry-budget test, consumes exactly one retry, happens only below CONN_RETRIES, and the u8 counter cannot overflow. Function level, all paths.",
    "level_note": "Mux::timeout is covered for which answer (408 / 503 / 504 / forceful termination / none) a stream gets as a function of its state and back.consumed. The connect-error -> status mapping lives in generic Mux<Front, L> methods that build default answers over pooled kawa buffers; liveness (no request unanswered beyond timeouts), exactly-once on the wire and isolation between streams need the running mux and are outside the claim.",
    "rule": "C02: decision table + retry budget.",
    "trusted_base": ["field-name tables parsed from lib/src/protocol/mux/stream.rs, kawa_h1/editor.rs and the kawa crate source"],
    "assumptions": ["Kawa::is_main_phase / is_terminated are arbitrary booleans (external crate)"],
    "residual": "default-answer status mapping of routing / connect errors (404/401/421/429/503), what set_default_answer writes, set_default_answer arming WRITABLE, RST/abort on the wire, multi-stream isolation.",
    "obligations": [
        M("c02_end_stream_decision_table", "whole function; the four inputs fully symbolic", "each of the 5 decisions is chosen exactly under its documented condition; questions are asked of stream.back; SendDefault carries 502 only", ["lib/src/protocol/mux/shared.rs"], prop="c02", which="decision"),
        M("c02_retry_budget", "whole function (290 blocks), loops unrolled 2x, callees uninterpreted", "counter advanced only below CONN_RETRIES, by exactly one, cannot overflow; backend_from_request / new_h1_client / new_h2_client / start_stream reachable only after the counter was advanced and only below the budget", ["lib/src/protocol/mux/router.rs"], prop="c02", which="retry"),
        M("c02_timeout_answer_table", "whole Mux::timeout (179 blocks), first iteration of each per-stream loop, every callee uninterpreted", "statuses within {408,503,504}; 408 only for Idle, 503 for exactly the Link streams, 504 only and always when back.consumed is false (frontend arm: Linked; backend arm: not terminated / error), forceful termination only when it is true; unlink before answering; never two answers per stream; every stream of the timed-out backend is ended; after an Unlinked stream should_close == back.is_completed()", ["lib/src/protocol/mux/mod.rs", "lib/src/protocol/mux/stream.rs"], prop="c02", which="timeout"),
    ],
}

BK = ["lib/src/backends.rs", "lib/src/retry.rs"]
REGISTRY["C12"] = {
    "engine": "mir",
    "technique": "symbolic execution of the MIR of the per-backend eligibility predicates and connection counters into SMT (z3 + cvc5); back-off window arming of ExponentialBackoffPolicy::fail",
    "level_text": "z3 and cvc5 both decide that Backend::can_open is exactly healthy && status == Normal && can_try() == Some(OKAY), that Backend::is_available is exactly healthy && status == Normal && !is_down() (the compared constants are read from the promoted MIR constants), and that one inc_connections / dec_connections step from an arbitrary (status, active_connections) never wraps, changes the count by exactly one only when allowed, never touches a Closed backend, and retires a Closing backend exactly when it reaches zero - an inductive step, so counts return to zero iff increments on Normal equal decrements, for any history; that the three candidate filters are exactly their documented predicates (fail-open never consults health); and that the selection cascade asks primary, then backup only if primary is empty, then fail-open only if both are empty, with exactly one policy call on the first non-empty tier.",
    "level_note": "The backend list as a data structure is not executed (CBMC ran out of memory at 2 backends): the cascade is checked as control flow over uninterpreted tier sets, the filters as predicates of one backend. Load-balancing policies (round robin, Maglev, HRW...), 'the policy returns a member of the set it was given', back-off arithmetic (random_range, Instant) are not claimed.",
    "rule": "C12: one obligation per predicate / counter function.",
    "trusted_base": [],
    "assumptions": ["HealthState::is_healthy, RetryPolicy::can_try / is_down and the derived PartialEq::eq of the two field-less enums are arbitrary booleans; eq's operands are checked to be (self.status, Normal) and (action, OKAY)"],
    "residual": "BackendList cascade and filters, find_sticky, load-balancing policies, Maglev rebuild, BackendMap, runtime removal by address, exponential back-off arithmetic, health-check transitions.",
    "obligations": [
        M("c12_can_open_is_eligibility", "whole function; all inputs symbolic", "can_open <=> healthy && status == Normal && can_try() == Some(OKAY)", BK, prop="c12", which="predicate", fn="can_open"),
        M("c12_is_available_predicate", "whole function", "is_available <=> healthy && status == Normal && !is_down()", BK, prop="c12", which="predicate", fn="is_available"),
        M("c12_inc_connections_step", "arbitrary (status, active_connections)", "count +1 exactly on Normal backends, untouched otherwise", BK[:1], prop="c12", which="counters", fn="inc_connections"),
        M("c12_dec_connections_step", "arbitrary (status, active_connections)", "never below zero; -1 exactly when positive and not Closed; Closing reaching zero becomes Closed, nothing else changes the status", BK[:1], prop="c12", which="counters", fn="dec_connections"),
        M("c12_candidate_filters", "the three candidate-set closures, all inputs symbolic", "available_backends keeps exactly backends with backup == requested tier && can_open(); the fail-open filter keeps exactly status == Normal && can_try() == Some(OKAY) and never consults health; find_sticky returns the sticky match iff can_open()", BK[:1], prop="c12", which="filters"),
        M("c12_readd_updates_role", "whole BackendList::add_backend; backend fields symbolic", "re-adding an existing (backend_id, address) stores the new backup flag (taken from the re-added backend) and refreshes sticky id and load-balancing parameters; every path inserts or updates", BK[:1], prop="c12", which="readd"),
        M("c12_cascade_skeleton", "whole next_available_backend_with_key; emptiness of each tier symbolic (is_empty consistent on an unchanged vector)", "primary tier asked first (backup=false), backup tier only when it is empty, fail-open set only when both are empty, the policy is asked exactly once on the first non-empty tier, never on an empty one", BK[:1], prop="c12", which="cascade"),
        M("c12_backoff_window_armed", "whole ExponentialBackoffPolicy::fail; Instant/Duration/rng uninterpreted", "the window test is last_try.elapsed() < wait; a failure outside the window rewrites wait, last_try and current_tries on every path, one inside it writes nothing", BK, prop="c12", which="backoff"),
        M("c12_maglev_full_table_scan", "whole Maglev::next_available_backend, probe loop unrolled once", "the probe loop is `0..self.size` and the stateful round-robin fallback of the keyed path is reachable only once that iterator returned None", ["lib/src/load_balancing.rs"], prop="c12", which="maglev"),
    ],
}

REGISTRY["C16"] = {
    "engine": "mir",
    "technique": "symbolic execution of the MIR of SessionManager::check_limits / incr / decr, the per-(cluster, ip) limit functions and their two call sites into SMT (z3 + cvc5)",
    "level_text": "z3 and cvc5 both decide that check_limits returns true exactly when nb_connections < max_connections and the slab is not at capacity, and closes the accept gate on every refusal; that incr called under the caller protocol (check_limits returned true) adds exactly one and can neither overflow nor trip its hard assert, so nb_connections <= max_connections is preserved; and that decr from 1 <= nb <= max <= 2^20 subtracts exactly one, cannot underflow or overflow, and re-opens accepting exactly when the gate was closed and the new count is below 90 % of the maximum. Inductive single steps.",
    "level_note": "The admission arithmetic, and for the per-(cluster, IP) limit the protocol around the nested maps (map calls uninterpreted): track_cluster_ip records every call in the reverse index and counts a triple exactly once; cluster_ip_at_limit is false for limit 0 / an already tracked token and otherwise `count >= limit` with limit = override.unwrap_or(global); both call sites (Router::connect, TcpSession::connect_to_backend) do backend work only after a `false` answer and after tracking, and return Err on `true`. The maps as data (untrack_all_cluster_ip decrements, entry reaping), slab entry removal on teardown, pooled buffers, timers, zombie reaping, accept queue and gauges are container/IO state and are outside the claim.",
    "rule": "C16: admission step obligations.",
    "trusted_base": ["field indices parsed from lib/src/server.rs (struct SessionManager)"],
    "assumptions": ["at_capacity() is an arbitrary boolean", "max_connections <= 2^20 for the 90 % threshold multiplication"],
    "residual": "untrack_all_cluster_ip and the contents of the per-IP maps over histories, session table, buffers, timers, gauges, accept queue.",
    "obligations": [
        M("c16_check_limits_gate", "arbitrary (nb_connections, max_connections, at_capacity)", "true <=> nb < max && !at_capacity; a refusal always clears can_accept; nothing else is written", SV, prop="c16", which="check_limits"),
        M("c16_incr_decr_step", "incr under nb < max; decr under 1 <= nb <= max <= 2^20", "exactly +1 / -1, no panic, no overflow; accepting resumes iff gate closed and nb' < max*90/100", SV, prop="c16", which="incr_decr"),
        M("c16_per_ip_track", "whole SessionManager::track_cluster_ip; map/set calls uninterpreted (HashSet::insert answers an arbitrary bool)", "every return is preceded by the reverse-index insert; the forward count is advanced by exactly one, exactly when the insert reported a new triple", SV, prop="c16", which="per_ip_track"),
        M("c16_per_ip_limit", "effective_max_connections_per_ip, cluster_ip_at_limit and its count-test closure; lookups uninterpreted", "limit = override.unwrap_or(global); limit 0 => false; token already tracked => false; otherwise exactly the count test, which is count >= limit over the resolved limit", SV, prop="c16", which="per_ip_limit"),
        M("c16_per_ip_gate_call_sites", "whole Router::connect (290 blocks) and TcpSession::connect_to_backend (152 blocks), loops unrolled 2x, callees uninterpreted", "backend selection / connection after the gate only with answer false and after track_cluster_ip; tracking only after an admitting answer; at-limit => Err; same token checked and tracked", SV + ["lib/src/protocol/mux/router.rs", "lib/src/tcp.rs"], prop="c16", which="per_ip_gate"),
        M("c16_timer_slot_hint_is_min", "whole Timer::poll_to, loop unrolled once more; slab / wheel indexing uninterpreted, cmp::min exact", "a store into a slot's next_tick that is not the TICK_MAX reset is <= the visited entry's tick and <= the slot's previous next_tick (an earlier pending timeout of the slot is never forgotten)", ["lib/src/timer.rs"], prop="c16", which="timer_hint"),
        M("c16_tcp_session_records_its_backend", "whole TcpSession::connect_to_backend (152 blocks), loops unrolled 2x, callees uninterpreted", "every path that returns Ok after backend_from_cluster_id (which counted the connection) stores Some(handle) into self.backend, the only thing remove_backend / fail_backend_connection act on", ["lib/src/tcp.rs", "lib/src/backends.rs"], prop="c16", which="tcp_backend_handle"),
    ],
}
