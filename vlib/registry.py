"""Property -> obligations.  Each obligation names the harness (engine K) or the MIR
obligation module (engine M), the bound it is decided within and what it claims."""

COMMON_TRUSTED = [
    "rustc/Kani 0.68 codegen to goto-C and CBMC 6.11 + CaDiCaL (engine K)",
    "nightly rustc -Zunpretty=mir and the MIR->SMT-LIB translator in /verif/vlib/mir (engine M; cross-checked z3 vs cvc5, translator validated on concrete vectors)",
    "hooks H1-H3 (--cfg sozu_verif): logging and metrics macros and push_queue/push_event compile to no-ops",
]
COMMON_ASSUMPTIONS = [
    "x86-64, usize = 64 bit, little endian",
    "allocation never fails (Kani default)",
    "dev-profile semantics: overflow checks on, debug_assert! live (every embedded sozu debug_assert on a driven path is an obligation)",
    "bounded: see coverage.bounds per obligation; nothing is claimed outside those bounds",
]


def K(name, bound, claim, functions, tier="quick", stubs=(), min_covers=1):
    return {"engine": "kani", "name": name, "bound": bound, "claim": claim,
            "functions": list(functions), "tier": tier, "stubs": list(stubs),
            "min_covers": min_covers}


def M(name, bound, claim, functions, tier="quick", **kw):
    d = {"engine": "mir", "name": name, "bound": bound, "claim": claim,
         "functions": list(functions), "tier": tier}
    d.update(kw)
    return d


CH = ["command/src/channel.rs", "command/src/buffer/growable.rs"]

REGISTRY = {}
HOOK_COMMITS = [
    "038e1f7 verif hook H1: logging macros compile to nothing under --cfg sozu_verif",
    "2b2dd03 verif hook H2: metrics macros record nothing under --cfg sozu_verif",
    "30c0265 verif hook H3: push_queue/push_event skip the QUEUE thread-local under --cfg sozu_verif",
]

REGISTRY["C11"] = {
    "technique": "bounded model checking (Kani/CBMC, SAT) of Channel framing + growable Buffer",
    "level_text": "CBMC decides, for all byte contents / prefixes / split points within the stated small sizes, that the real Channel::{write_message,read_message} and Buffer code re-frames messages exactly once, in order, intact, classifies malformed prefixes, never panics or indexes out of bounds (incl. the unsafe ptr::copy blocks) and never grows past max_buffer_size. Bounded, not a proof.",
    "level_note": "Sizes are small and concrete (buffers 8..32 bytes, payloads <= 4 bytes); the socket syscalls are replaced by direct delivery into front_buf; message codec is a 4-byte stand-in. See evidence coverage.bounds / outside_bounds.",
    "rule": "C11: one harness per buffer op family / framing scenario.",
    "trusted_base": ["harness message codec `Raw` (≤4 raw bytes, 0xFF-first = undecodable) stands in for prost-generated WorkerRequest/Response"],
    "assumptions": ["the kernel never delivers more bytes than the slice it was given (readable()'s own debug_assert)",
                    "socket never touched: bytes are moved into front_buf the way readable() does (space()+fill)"],
    "residual": "socket loops readable()/writable() (syscalls, WouldBlock at OS level), readable()'s own grow branch (same grow_size), decode of real WorkerRequest payloads, buffer capacities other than the concrete ones used (8/12/16/24/32), blocking mode.",
    "obligations": [
        K("c11::c11_buffer_fill_consume_invariant", "capacity 8 (concrete); fill/consume counts: all usize; pre-state: any state reachable by fill,consume,fill; unwind 10",
          "fill/consume move position/end by exactly min(n, room); position<=end<=capacity; data()/space() lengths agree", CH[1:]),
        K("c11::c11_buffer_shift_preserves_data", "capacity 8, contents symbolic, all (fill, consume) pairs; unwind 10",
          "auto-shift in fill/consume and shift() keep the pending bytes byte-identical and in order", CH[1:]),
        K("c11::c11_buffer_grow_shrink_preserve", "capacity 8 -> target in {2,4,8,16}; contents and positions symbolic; unwind 18",
          "grow/shrink keep pending bytes; shrink refuses iff data would not fit; capacity bookkeeping exact", CH[1:]),
        K("c11::c11_buffer_write_read_exact", "capacity 8, write <=4 symbolic bytes, read 4; unwind 10",
          "io::Write/io::Read impls append/remove exactly the bytes, short write == free space", CH[1:]),
        K("c11::c11_reframe_any_cut_3_0", "2 messages (3 and 0 payload bytes, contents symbolic), 32-byte buffers, 19-byte stream delivered in 2 pieces at a SYMBOLIC cut 0..19; unwind 9",
          "real writer -> real reader: both messages delivered exactly once, in order, byte-identical, nothing decoded before its last byte arrived, capacity <= max", CH, min_covers=2),
        K("c11::c11_reframe_grow_cuts", "2 messages (4+4 bytes, contents symbolic), 24-byte stream through 16-byte buffers (both sides grow to 32), cuts {3,12,16,21} concrete; unwind 18",
          "same, through the grow paths of write_delimited_message and try_read_delimited_message", CH),
        K("c11::c11_reframe_grow_all_cuts", "same, every cut 0..24 enumerated concretely; unwind 27",
          "same, every 2-piece split", CH, tier="thorough"),
        K("c11::c11_reframe_tight_all_cuts", "messages of 1 and 2 bytes, buffers 12 -> max 24, every cut 0..19 concrete; unwind 21",
          "same, with the ceiling just above the traffic (grow clipped at max)", CH, tier="thorough"),
        K("c11::c11_bad_prefix_is_error_not_panic", "all 8-byte prefixes + 0..8 further symbolic bytes, buffer 16, max 32; unwind 20",
          "declared < 8 => MessageLengthUnderDelimiter and prefix dropped; > max => MessageTooLarge; incomplete => NothingRead with buffer untouched; never a panic / OOB; capacity <= max", CH, min_covers=5),
        K("c11::c11_under_delimiter_resyncs", "all bad lengths 0..7 followed by one valid 2-byte message; unwind 20",
          "after an under-delimiter prefix the following valid frame is delivered intact", CH),
        K("c11::c11_undecodable_frame_not_wedged", "complete frame with 1..3 undecodable payload bytes followed by a valid frame; unwind 20",
          "undecodable payload => InvalidProtobufMessage, and the channel is not wedged: the next read_message yields the following frame", CH),
        K("c11::c11_write_grow_bounded_boundaries", "back buffer 12 -> max 24; (earlier 9-byte frames, drained bytes) in {(1,0),(1,9),(2,0),(2,5),(2,14)} concrete, new message 4 symbolic bytes; unwind 14",
          "write: Ok => exactly 8+len more pending bytes right behind the old ones; MessageTooLarge only when it cannot fit under max and buffer untouched; earlier bytes intact; capacity <= max", CH),
        K("c11::c11_write_grow_bounded_len4", "same, ALL (frames 0..2, drained 0..9*frames) positions enumerated concretely, contents symbolic; unwind 21",
          "as above, every drain offset", CH, tier="thorough"),
        K("c11::c11_write_grow_bounded_len0", "same with an empty payload (8-byte frame)", "as above, empty message", CH, tier="thorough"),
    ],
}
