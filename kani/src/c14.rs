//! C14 / C01 — sender-side HTTP/2 budget arithmetic and frame codec.
//!
//! Real code driven: `H2BlockConverter::call` (`Block::Chunk` DATA emission arm and
//! `Block::Flags` HEADERS/CONTINUATION split) over a `Kawa<SliceBuffer>`,
//! `serializer::gen_frame_header` <-> `parser::frame_header`, `h2::next_stream_id`,
//! `H2ConnectionConfig::new`, `serializer::gen_settings` <-> `parser::settings_frame`,
//! `Readiness::{arm_writable, signal_pending_write, filter_interest}`.
use kawa::{
    Block, BlockConverter, Buffer, Chunk, Flags, Kawa, Kind, OutBlock, SliceBuffer, Store,
};
use kawa::repr::Slice;
use sozu_command_lib::ready::Ready;
use sozu_lib::protocol::mux::parser::{
    self, frame_body, frame_header, Frame, FrameHeader, FrameType, FLAG_END_HEADERS,
    FLAG_END_STREAM, STREAM_ID_MASK,
};
use sozu_lib::protocol::mux::verif::h2 as vh2;
use sozu_lib::protocol::mux::verif::serializer as ser;
use sozu_lib::protocol::mux::verif::{H2BlockConverter, H2ConnectionConfig, H2Settings};
use sozu_lib::Readiness;


// loona-hpack logs through `tracing`, whose dispatcher is a thread-local with a destructor
// (kani-compiler 0.68 ICEs on those): tracing is switched off by stubs
pub fn stub_tracing_is_enabled(_m: &tracing::Metadata<'static>, _i: tracing_core::Interest) -> bool {
    false
}
pub fn stub_tracing_register(_c: &'static tracing_core::callsite::DefaultCallsite) -> tracing_core::Interest {
    tracing_core::Interest::never()
}
pub fn stub_tracing_dispatch<'a>(_m: &'static tracing::Metadata<'static>, _f: &'a tracing_core::field::ValueSet<'_>)
where
    'a: 'a,
{
}

fn converter<'a>(
    enc: &'a mut loona_hpack::Encoder<'static>,
    window: i32,
    max_frame_size: usize,
    stream_id: u32,
) -> H2BlockConverter<'a> {
    H2BlockConverter {
        max_frame_size,
        window,
        stream_id,
        encoder: enc,
        out: Vec::new(),
        scheme: b"https",
        lowercase_buf: Vec::new(),
        cookie_buf: Vec::new(),
        position_is_client: kani::any(),
        incremental_mode: kani::any(),
        incremental_peer_count: kani::any(),
        pending_table_size_update: None,
        size_update_emitted: false,
        pending_oversized_abort: false,
    }
}

fn out_store<'a, 'b>(k: &'a Kawa<SliceBuffer<'b>>, i: usize) -> &'a Store {
    match &k.out[i] {
        OutBlock::Store(s) => s,
        OutBlock::Delimiter => panic!("unexpected delimiter"),
    }
}

/// One DATA emission step for every window (i32), every legal max_frame_size and every
/// chunk length (a `Store::Slice` is just (start, len): fully symbolic, no bytes needed).
/// C14: never more than the window, never more than max_frame_size, window decreases by
/// exactly what was sent.  C01: the emitted part and the pushed-back remainder partition
/// the chunk in order, nothing duplicated or dropped.
#[kani::proof]
#[kani::unwind(12)]
#[kani::stub(tracing::__macro_support::__is_enabled, stub_tracing_is_enabled)]
#[kani::stub(tracing_core::callsite::DefaultCallsite::register, stub_tracing_register)]
#[kani::stub(tracing_core::event::Event::dispatch, stub_tracing_dispatch)]
fn c14_data_budget_and_split() {
    let mut enc = loona_hpack::Encoder::new();
    let window: i32 = kani::any();
    let max_frame_size: usize = kani::any();
    // RFC 9113 section 4.2 / 6.5.2: legal SETTINGS_MAX_FRAME_SIZE range (sozu validates
    // the peer's value before it reaches the converter)
    kani::assume(max_frame_size >= 16384 && max_frame_size <= 16_777_215);
    let sid: u32 = kani::any();
    kani::assume(sid != 0 && sid <= STREAM_ID_MASK);
    let start: u32 = kani::any();
    let len: u32 = kani::any();
    // a chunk lives inside a kawa buffer: start + len does not wrap
    kani::assume(len >= 1 && start <= 1 << 30 && len <= 1 << 30);
    let mut conv = converter(&mut enc, window, max_frame_size, sid);
    let mut buf = [0u8; 16];
    let mut k = Kawa::new(Kind::Response, Buffer::new(SliceBuffer(&mut buf)));
    // something already queued behind the chunk, to check ordering of the push-back
    let end_stream: bool = kani::any();
    k.blocks.push_back(Block::Flags(Flags { end_body: true, end_chunk: false, end_header: false, end_stream }));
    let cont = conv.call(Block::Chunk(Chunk { data: Store::Slice(Slice { start, len }) }), &mut k);

    let budget: u64 = if window > 0 { window as u64 } else { 0 };
    if k.out.is_empty() {
        // nothing emitted: only when the window is closed; chunk returned whole, in front
        assert!(window <= 0, "stalled although the window is open");
        assert!(!cont);
        assert!(conv.window == window);
        assert!(k.blocks.len() == 2);
        match &k.blocks[0] {
            Block::Chunk(Chunk { data: Store::Slice(s) }) => assert!(s.start == start && s.len == len),
            _ => panic!("chunk not returned to the front of the queue"),
        }
        kani::cover!(window == 0, "zero window stalls");
        kani::cover!(window < 0, "negative window stalls");
    } else {
        assert!(k.out.len() == 2, "exactly one frame header + one payload store");
        // header: 9 bytes, DATA, no flags, this stream, payload_len == emitted length
        let hdr = match out_store(&k, 0) {
            Store::Alloc(b, 0) => {
                assert!(b.len() == 9);
                frame_header(b, 16_777_215).unwrap().1
            }
            _ => panic!("frame header store"),
        };
        assert!(hdr.frame_type == FrameType::Data && hdr.flags == 0 && hdr.stream_id == sid);
        let sent = hdr.payload_len;
        let (s_start, s_len) = match out_store(&k, 1) {
            Store::Slice(s) => (s.start, s.len),
            _ => panic!("payload store kind changed"),
        };
        assert!(s_len == sent, "frame header length differs from the bytes queued");
        assert!(s_start == start, "emitted bytes do not start at the chunk start");
        // C14 budgets
        assert!(sent as u64 <= budget, "DATA exceeds the flow-control window");
        assert!(sent as usize <= max_frame_size, "DATA exceeds the peer's max frame size");
        assert!(sent >= 1);
        assert!(conv.window as i64 == window as i64 - sent as i64, "window bookkeeping");
        // maximal progress: sends min(len, window, max_frame_size)
        let want = (len as u64).min(budget).min(max_frame_size as u64);
        assert!(sent as u64 == want, "sent less than the budgets allow");
        // C01 partition
        if sent == len {
            assert!(k.blocks.len() == 1, "nothing must be pushed back when all was sent");
        } else {
            assert!(k.blocks.len() == 2);
            match &k.blocks[0] {
                Block::Chunk(Chunk { data: Store::Slice(s) }) => {
                    assert!(s.start == start + sent, "remainder must start right after the emitted part");
                    assert!(s.len == len - sent, "remainder length");
                }
                _ => panic!("remainder not at the front of the queue"),
            }
            kani::cover!(sent as u64 == budget && budget < max_frame_size as u64, "window-limited split");
            kani::cover!(sent as usize == max_frame_size, "frame-size-limited split");
        }
        // the queued Flags block is still last (order preserved)
        match k.blocks.back() {
            Some(Block::Flags(f)) => assert!(f.end_stream == end_stream),
            _ => panic!("queued blocks reordered"),
        }
        kani::cover!(sent == len && window == i32::MAX, "whole chunk, max window");
    }
    std::mem::forget(k);
    std::mem::forget(conv);
}

/// HEADERS / CONTINUATION split of a 10-byte header block for max_frame_size in
/// {3, 4, 10, 11} (concrete: each piece is a heap store), both END_STREAM values
fn headers_split(max_frame_size: usize) {
    let mut enc = loona_hpack::Encoder::new();
    let sid: u32 = kani::any();
    kani::assume(sid != 0 && sid <= STREAM_ID_MASK);
    let mut conv = converter(&mut enc, 0, max_frame_size, sid);
    let block: [u8; 10] = kani::any();
    conv.out.extend_from_slice(&block);
    let mut buf = [0u8; 16];
    let mut k = Kawa::new(Kind::Response, Buffer::new(SliceBuffer(&mut buf)));
    let end_stream: bool = kani::any();
    let cont = conv.call(
        Block::Flags(Flags { end_body: false, end_chunk: false, end_header: true, end_stream }),
        &mut k,
    );
    assert!(cont);
    assert!(conv.out.is_empty());
    let n_frames = (10 + max_frame_size - 1) / max_frame_size;
    assert!(k.out.len() == 2 * n_frames);
    let mut off = 0usize;
    let mut i = 0;
    while i < n_frames {
        let hdr = match out_store(&k, 2 * i) {
            Store::Alloc(b, 0) => frame_header(b, 16_777_215).unwrap().1,
            _ => panic!("frame header store"),
        };
        let payload: &[u8] = match out_store(&k, 2 * i + 1) {
            Store::Alloc(b, 0) => b,
            _ => panic!("payload store"),
        };
        assert!(hdr.payload_len as usize == payload.len());
        assert!(payload.len() <= max_frame_size, "header frame exceeds the peer's max frame size");
        assert!(hdr.stream_id == sid);
        if i == 0 {
            assert!(hdr.frame_type == FrameType::Headers);
            assert!((hdr.flags & FLAG_END_STREAM != 0) == end_stream);
        } else {
            assert!(hdr.frame_type == FrameType::Continuation);
            assert!(hdr.flags & FLAG_END_STREAM == 0);
        }
        assert!((hdr.flags & FLAG_END_HEADERS != 0) == (i + 1 == n_frames));
        let mut j = 0;
        while j < payload.len() {
            assert!(payload[j] == block[off + j], "header block bytes altered or reordered");
            j += 1;
        }
        off += payload.len();
        i += 1;
    }
    assert!(off == 10, "header block bytes dropped or duplicated");
    std::mem::forget(k);
    std::mem::forget(conv);
}

#[kani::proof]
#[kani::unwind(12)]
#[kani::stub(tracing::__macro_support::__is_enabled, stub_tracing_is_enabled)]
#[kani::stub(tracing_core::callsite::DefaultCallsite::register, stub_tracing_register)]
#[kani::stub(tracing_core::event::Event::dispatch, stub_tracing_dispatch)]
fn c14_headers_split_small_frames() {
    headers_split(3);
    headers_split(4);
    kani::cover!(true, "reached");
}

#[kani::proof]
#[kani::unwind(12)]
#[kani::stub(tracing::__macro_support::__is_enabled, stub_tracing_is_enabled)]
#[kani::stub(tracing_core::callsite::DefaultCallsite::register, stub_tracing_register)]
#[kani::stub(tracing_core::event::Event::dispatch, stub_tracing_dispatch)]
fn c14_headers_split_exact_and_larger() {
    headers_split(10);
    headers_split(11);
    kani::cover!(true, "reached");
}

/// locally initiated stream ids: legal, strictly increasing, right parity, exhaustion is final
#[kani::proof]
#[kani::unwind(3)]
fn c14_stream_id_allocation() {
    let last: u32 = kani::any();
    let is_client: bool = kani::any();
    match vh2::next_stream_id(last, is_client) {
        Some((id, next)) => {
            assert!(id <= 0x7FFF_FFFF, "illegal stream identifier");
            assert!(next > id && next > last);
            if last % 2 == 0 {
                assert!((id % 2 == 1) == is_client, "stream id parity does not match the role");
                assert!(next % 2 == 0, "watermark stays even");
                assert!(id > last || (!is_client && id == last), "ids never regress");
            }
            match vh2::next_stream_id(next, is_client) {
                Some((id2, next2)) => assert!(id2 > id && next2 > next),
                None => {}
            }
            kani::cover!(id == 0x7FFF_FFFF, "last legal id issued");
        }
        None => {
            // exhausted: stays exhausted for every larger watermark
            let later: u32 = kani::any();
            kani::assume(later >= last);
            assert!(vh2::next_stream_id(later, is_client).is_none());
            kani::cover!(true, "exhausted");
        }
    }
}

/// advertised settings stay inside RFC 9113 bounds whatever the configuration says
#[kani::proof]
#[kani::unwind(3)]
fn c14_connection_config_clamps() {
    let c = H2ConnectionConfig::new(kani::any(), kani::any(), kani::any());
    assert!(c.initial_connection_window >= 65_535 && c.initial_connection_window <= 0x7FFF_FFFF);
    assert!(c.max_concurrent_streams >= 1 && c.max_concurrent_streams <= 10_000);
    assert!(c.stream_shrink_ratio >= 2);
    let w: Option<u32> = kani::any();
    let c2 = H2ConnectionConfig::from_optional(w, None, None);
    assert!(c2.initial_connection_window >= 65_535 && c2.initial_connection_window <= 0x7FFF_FFFF);
    if let Some(x) = w {
        if x >= 65_535 && x <= 0x7FFF_FFFF {
            assert!(c2.initial_connection_window == x, "in-range value must be kept");
        }
    }
    kani::cover!(c.initial_connection_window == 0x7FFF_FFFF, "clamped high");
}

/// SETTINGS frame sozu emits parses back to the values it meant to advertise
#[kani::proof]
#[kani::unwind(10)]
fn c14_settings_roundtrip() {
    let s = H2Settings {
        settings_header_table_size: kani::any(),
        settings_enable_push: kani::any(),
        settings_max_concurrent_streams: kani::any(),
        settings_initial_window_size: kani::any(),
        settings_max_frame_size: kani::any(),
        settings_max_header_list_size: kani::any(),
        settings_enable_connect_protocol: kani::any(),
        settings_no_rfc7540_priorities: kani::any(),
    };
    let mut buf = [0u8; 57];
    let n = ser::gen_settings(&mut buf, &s).unwrap().1;
    assert!(n == 9 + 48);
    let (rest, h) = frame_header(&buf[..n], 16384).unwrap();
    assert!(h.frame_type == FrameType::Settings && h.stream_id == 0 && h.flags == 0 && h.payload_len == 48);
    match frame_body(rest, &h) {
        Ok((r2, Frame::Settings(st))) => {
            assert!(r2.is_empty() && !st.ack && st.settings.len() == 8);
            let want: [(u16, u32); 8] = [
                (1, s.settings_header_table_size),
                (2, s.settings_enable_push as u32),
                (3, s.settings_max_concurrent_streams),
                (4, s.settings_initial_window_size),
                (5, s.settings_max_frame_size),
                (6, s.settings_max_header_list_size),
                (8, s.settings_enable_connect_protocol as u32),
                (9, s.settings_no_rfc7540_priorities as u32),
            ];
            let mut i = 0;
            while i < 8 {
                assert!(st.settings[i].identifier == want[i].0 && st.settings[i].value == want[i].1);
                i += 1;
            }
            std::mem::forget(st);
        }
        _ => panic!("own SETTINGS does not parse"),
    }
    kani::cover!(true, "reached");
}

// ---------------------------------------------------------------- C01 kernels
/// frame header codec: parse(gen(h)) == h for every header (reserved bit masked)
#[kani::proof]
#[kani::unwind(6)]
fn c01_frame_header_roundtrip() {
    let t: u8 = kani::any();
    kani::assume(t <= 9);
    let ft = match t {
        0 => FrameType::Data,
        1 => FrameType::Headers,
        2 => FrameType::Priority,
        3 => FrameType::RstStream,
        4 => FrameType::Settings,
        5 => FrameType::PushPromise,
        6 => FrameType::Ping,
        7 => FrameType::GoAway,
        8 => FrameType::WindowUpdate,
        _ => FrameType::Continuation,
    };
    let h = FrameHeader {
        payload_len: kani::any(),
        frame_type: ft,
        flags: kani::any(),
        stream_id: kani::any(),
    };
    kani::assume(h.payload_len < 1 << 24);
    let mut buf = [0u8; 9];
    let n = ser::gen_frame_header(&mut buf, &h).unwrap().1;
    assert!(n == 9);
    assert!(buf[0] == (h.payload_len >> 16) as u8 && buf[1] == (h.payload_len >> 8) as u8 && buf[2] == h.payload_len as u8);
    assert!(buf[3] == t && buf[4] == h.flags);
    assert!(buf[5] & 0x80 == 0, "reserved bit must be clear on the wire");
    match frame_header(&buf, 16_777_215) {
        Ok((rest, back)) => {
            assert!(rest.is_empty());
            assert!(back.payload_len == h.payload_len && back.flags == h.flags);
            assert!(back.stream_id == h.stream_id & STREAM_ID_MASK);
            assert!(ser::serialize_frame_type(&back.frame_type) == t);
        }
        Err(_) => {
            // only the stream-id parity rule can reject sozu's own header
            let sid0 = h.stream_id & STREAM_ID_MASK == 0;
            match t {
                0 | 1 | 2 | 3 | 5 | 9 => assert!(sid0),
                4 | 6 | 7 => assert!(!sid0),
                _ => panic!("own frame header rejected"),
            }
        }
    }
    kani::cover!(h.payload_len == (1 << 24) - 1, "max length");
    kani::cover!(h.stream_id > STREAM_ID_MASK, "reserved bit set by caller");
}

/// Readiness bit algebra: after queuing bytes and arming WRITABLE the session is woken
/// for write (the lost-wake-up shape), and nothing else changes
#[kani::proof]
#[kani::unwind(3)]
fn c01_readiness_never_loses_writable() {
    let e: u16 = kani::any();
    let i: u16 = kani::any();
    // the representation invariant check_invariants() enforces: only the 4 known bits
    kani::assume(e & !0b1111 == 0 && i & !0b1111 == 0);
    let mut r = Readiness { event: Ready(e), interest: Ready(i) };
    let which: bool = kani::any();
    if which {
        r.arm_writable();
        assert!(r.filter_interest().is_writable(), "arm_writable must make the session runnable for write");
        assert!(r.interest.0 == i | Ready::WRITABLE.0 && r.event.0 == e | Ready::WRITABLE.0);
    } else {
        r.signal_pending_write();
        assert!(r.event.is_writable());
        assert!(r.interest.0 == i && r.event.0 == e | Ready::WRITABLE.0);
        assert!(r.filter_interest().is_writable() == (i & Ready::WRITABLE.0 != 0));
    }
    let f = r.filter_interest();
    assert!(f.0 == r.event.0 & r.interest.0);
    kani::cover!(which && e == 0 && i == 0, "from idle");
    kani::cover!(!which && i & 2 == 0, "signal without interest");
}
