//! C19 — per-flow UDP state machine and the affinity key.
//!
//! Real code driven: `UdpFlow::{touch, on_client_datagram, on_backend_datagram, set_phase,
//! requests_exhausted, responses_exhausted, teardown_reason, take_proxy_protocol}` from an
//! arbitrary flow state (pub fields), and `FlowKey::from_src`.
//! `UdpManager` (HashMap + slab) is outside CBMC's reach.
use std::net::{Ipv4Addr, Ipv6Addr, SocketAddr, SocketAddrV4, SocketAddrV6};
use std::time::{Duration, Instant};

use sozu_lib::protocol::udp::flow::{CloseReason, FlowPhase, UdpFlow};
use sozu_lib::protocol::udp::{ClusterConfig, FlowKey};

fn t0() -> Instant {
    // Instant is (secs, nanos); a fixed origin. Instants are never compared by the flow.
    unsafe { std::mem::zeroed() }
}

fn any_phase() -> FlowPhase {
    match kani::any::<u8>() % 3 {
        0 => FlowPhase::AwaitingBackend,
        1 => FlowPhase::Established,
        _ => FlowPhase::Closing,
    }
}

fn any_flow(phase: FlowPhase) -> UdpFlow {
    let secs: u8 = kani::any();
    UdpFlow {
        client: SocketAddr::V4(SocketAddrV4::new(Ipv4Addr::new(10, 0, 0, 1), 5000)),
        backend_id: None,
        backend_addr: None,
        phase,
        config: ClusterConfig {
            cluster: String::new(),
            affinity_with_port: kani::any(),
            responses: kani::any(),
            requests: kani::any(),
            front_timeout: Duration::from_secs(secs as u64),
            back_timeout: Duration::from_secs(30),
            send_proxy_protocol: kani::any(),
            proxy_protocol_every_datagram: kani::any(),
        },
        requests_seen: kani::any(),
        responses_seen: kani::any(),
        idle_deadline: t0(),
        timer_gen: kani::any(),
        first_upstream_pending: kani::any(),
        pending_payload: None,
    }
}

/// one datagram step from an arbitrary established flow
#[kani::proof]
#[kani::unwind(4)]
fn c19_flow_datagram_step() {
    let mut f = any_flow(FlowPhase::Established);
    let (req0, resp0, gen0) = (f.requests_seen, f.responses_seen, f.timer_gen);
    let which: u8 = kani::any();
    kani::assume(which < 3);
    let g = match which {
        0 => f.on_client_datagram(t0()),
        1 => f.on_backend_datagram(t0()),
        _ => f.touch(Duration::from_secs(5), t0()),
    };
    // a stale wheel expiry captured against gen0 can never match again
    assert!(g == f.timer_gen && g != gen0, "generation token must change on every touch (incl. wrap)");
    assert!(g == gen0.wrapping_add(1));
    // counters: exactly the right one, by exactly one, saturating, never wrapping
    match which {
        0 => assert!(f.requests_seen == req0.saturating_add(1) && f.responses_seen == resp0),
        1 => assert!(f.responses_seen == resp0.saturating_add(1) && f.requests_seen == req0),
        _ => assert!(f.requests_seen == req0 && f.responses_seen == resp0),
    }
    assert!(f.requests_seen >= req0 && f.responses_seen >= resp0);
    assert!(f.phase == FlowPhase::Established, "a datagram never moves the phase by itself");
    kani::cover!(gen0 == u64::MAX, "generation wraps");
    kani::cover!(which == 0 && req0 == u32::MAX, "request counter saturates");
    std::mem::forget(f);
}

/// teardown verdict == "a non-zero cap is reached", responses before requests
#[kani::proof]
#[kani::unwind(4)]
fn c19_teardown_reason_exact() {
    let f = any_flow(any_phase());
    let resp = f.config.responses != 0 && f.responses_seen >= f.config.responses;
    let req = f.config.requests != 0 && f.requests_seen >= f.config.requests;
    assert!(f.responses_exhausted() == resp && f.requests_exhausted() == req);
    match f.teardown_reason() {
        Some(CloseReason::ResponsesReached) => assert!(resp),
        Some(CloseReason::RequestsReached) => assert!(req && !resp),
        None => assert!(!resp && !req, "exhausted flow not torn down"),
        Some(_) => panic!("unexpected close reason"),
    }
    kani::cover!(resp && req, "both caps reached");
    kani::cover!(f.config.responses == 0 && f.responses_seen == u32::MAX, "unlimited never exhausts");
    std::mem::forget(f);
}

/// a flow with caps is torn down exactly when the cap-th datagram is counted
#[kani::proof]
#[kani::unwind(4)]
fn c19_cap_reached_exactly() {
    let mut f = any_flow(FlowPhase::Established);
    kani::assume(f.config.responses >= 1 && f.responses_seen < f.config.responses);
    kani::assume(f.config.requests == 0);
    let last = f.responses_seen + 1 == f.config.responses;
    f.on_backend_datagram(t0());
    assert!(f.teardown_reason().is_some() == last, "flow must close on exactly its last allowed reply");
    kani::cover!(last, "last reply");
    kani::cover!(!last, "not yet");
    std::mem::forget(f);
}

/// PPv2 prefix policy: never / every datagram / exactly the first one
#[kani::proof]
#[kani::unwind(4)]
fn c19_proxy_protocol_policy() {
    let mut f = any_flow(any_phase());
    let send = f.config.send_proxy_protocol;
    let every = f.config.proxy_protocol_every_datagram;
    let pending = f.first_upstream_pending;
    let a = f.take_proxy_protocol();
    let b = f.take_proxy_protocol();
    if !send {
        assert!(!a && !b, "PPv2 header sent although disabled");
    } else if every {
        assert!(a && b);
    } else {
        assert!(a == pending, "first-datagram mode: prefix iff it is the first upstream datagram");
        assert!(!b, "first-datagram mode: header must not be repeated");
    }
    kani::cover!(send && !every && pending, "first datagram mode");
    std::mem::forget(f);
}

/// phases only move forward (sozu's own debug_assert is the obligation in the dev
/// profile Kani models; here the legal edges are driven and the state checked)
#[kani::proof]
#[kani::unwind(4)]
fn c19_phase_forward_only() {
    let from = any_phase();
    let to = any_phase();
    let legal = matches!(
        (from, to),
        (FlowPhase::AwaitingBackend, FlowPhase::Established)
            | (FlowPhase::AwaitingBackend, FlowPhase::Closing)
            | (FlowPhase::Established, FlowPhase::Closing)
    );
    kani::assume(legal);
    let mut f = any_flow(from);
    f.set_phase(to);
    assert!(f.phase == to);
    let rank = |p: FlowPhase| match p {
        FlowPhase::AwaitingBackend => 0,
        FlowPhase::Established => 1,
        FlowPhase::Closing => 2,
    };
    assert!(rank(f.phase) > rank(from));
    kani::cover!(from == FlowPhase::AwaitingBackend && to == FlowPhase::Closing, "abort before establish");
    std::mem::forget(f);
}

/// the function stickiness is defined on: equal keys <=> equal IP (and port when keyed on it)
#[kani::proof]
#[kani::unwind(18)]
fn c19_flowkey_affinity() {
    let v6: bool = kani::any();
    let mk = |v6: bool| -> SocketAddr {
        if v6 {
            let o: [u8; 16] = kani::any();
            SocketAddr::V6(SocketAddrV6::new(Ipv6Addr::from(o), kani::any(), 0, 0))
        } else {
            let o: [u8; 4] = kani::any();
            SocketAddr::V4(SocketAddrV4::new(Ipv4Addr::new(o[0], o[1], o[2], o[3]), kani::any()))
        }
    };
    let (a, b) = (mk(v6), mk(kani::any()));
    let with_port: bool = kani::any();
    let (ka, kb) = (FlowKey::from_src(a, with_port), FlowKey::from_src(b, with_port));
    let same_ip = a.ip() == b.ip();
    let want = if with_port { same_ip && a.port() == b.port() } else { same_ip };
    assert!((ka == kb) == want, "affinity key must identify exactly the source (ip[, port])");
    assert!(ka.src.ip() == a.ip(), "the key must keep the client's address");
    if !with_port {
        assert!(ka.src.port() == 0);
    }
    kani::cover!(!with_port && same_ip && a.port() != b.port(), "same ip, two ports, one flow");
    kani::cover!(with_port && same_ip && a.port() != b.port(), "same ip, two ports, two flows");
}
