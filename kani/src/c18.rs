//! C18 — PROXY protocol v2 codec and the expect-mode read window.
//!
//! Real code driven: `HeaderV2::{new,into_bytes,len}`, `ProxyAddr::{from,source,
//! destination}`, `parser::parse_v2_header` (nom), `ExpectProxyProtocol::<S>::readable`
//! with `S` a scripted in-memory `SocketHandler`.
use std::net::{Ipv4Addr, Ipv6Addr, SocketAddr, SocketAddrV4, SocketAddrV6};
use std::os::fd::FromRawFd;
use std::time::Duration;

use nom::Err as NomErr;
use sozu_lib::protocol::proxy_protocol::expect::ExpectProxyProtocol;
use sozu_lib::protocol::proxy_protocol::header::{Command, HeaderV2, ProxyAddr};
use sozu_lib::protocol::proxy_protocol::parser::parse_v2_header;
use sozu_lib::protocol::SessionResult;
use sozu_lib::socket::{SocketHandler, SocketResult, TransportProtocol};
use sozu_lib::timer::TimeoutContainer;
use sozu_lib::SessionMetrics;

const SIG: [u8; 12] = [0x0D, 0x0A, 0x0D, 0x0A, 0x00, 0x0D, 0x0A, 0x51, 0x55, 0x49, 0x54, 0x0A];

fn any_v4() -> SocketAddrV4 {
    let o: [u8; 4] = kani::any();
    SocketAddrV4::new(Ipv4Addr::new(o[0], o[1], o[2], o[3]), kani::any())
}
fn any_v6() -> SocketAddrV6 {
    let o: [u8; 16] = kani::any();
    SocketAddrV6::new(Ipv6Addr::from(o), kani::any(), 0, 0)
}
fn any_cmd() -> Command {
    if kani::any() { Command::Local } else { Command::Proxy }
}

#[kani::proof]
#[kani::unwind(17)]
fn c18_ppv2_roundtrip_v4() {
    let (src, dst) = (any_v4(), any_v4());
    let cmd = any_cmd();
    let is_proxy = matches!(cmd, Command::Proxy);
    let h = HeaderV2::new(cmd, SocketAddr::V4(src), SocketAddr::V4(dst));
    let bytes = h.into_bytes();
    assert!(bytes.len() == 28 && h.len() == 28);
    // wire layout (spec section 2.2): signature, ver|cmd, fam|proto, len, addresses
    assert!(bytes[..12] == SIG);
    assert!(bytes[12] == if is_proxy { 0x21 } else { 0x20 });
    assert!(bytes[13] == 0x11);
    assert!(bytes[14] == 0 && bytes[15] == 12);
    assert!(bytes[16..20] == src.ip().octets());
    assert!(bytes[20..24] == dst.ip().octets());
    assert!(bytes[24..26] == src.port().to_be_bytes());
    assert!(bytes[26..28] == dst.port().to_be_bytes());
    match parse_v2_header(&bytes) {
        Ok((rest, back)) => {
            assert!(rest.is_empty());
            assert!(back.family == 0x11);
            assert!(matches!(back.command, Command::Proxy) == is_proxy);
            assert!(back.addr.source() == Some(SocketAddr::V4(src)));
            assert!(back.addr.destination() == Some(SocketAddr::V4(dst)));
            assert!(back == h);
        }
        Err(_) => panic!("sozu's own v4 header does not parse"),
    }
    kani::cover!(is_proxy && src.port() == 65535, "proxy command, max port");
}

#[kani::proof]
#[kani::unwind(18)]
fn c18_ppv2_roundtrip_v6() {
    let (src, dst) = (any_v6(), any_v6());
    let cmd = any_cmd();
    let is_proxy = matches!(cmd, Command::Proxy);
    let h = HeaderV2::new(cmd, SocketAddr::V6(src), SocketAddr::V6(dst));
    let bytes = h.into_bytes();
    assert!(bytes.len() == 52 && h.len() == 52);
    assert!(bytes[..12] == SIG);
    assert!(bytes[12] == if is_proxy { 0x21 } else { 0x20 });
    assert!(bytes[13] == 0x21);
    assert!(bytes[14] == 0 && bytes[15] == 36);
    assert!(bytes[16..32] == src.ip().octets());
    assert!(bytes[32..48] == dst.ip().octets());
    assert!(bytes[48..50] == src.port().to_be_bytes());
    assert!(bytes[50..52] == dst.port().to_be_bytes());
    match parse_v2_header(&bytes) {
        Ok((rest, back)) => {
            assert!(rest.is_empty());
            assert!(back.family == 0x21);
            assert!(matches!(back.command, Command::Proxy) == is_proxy);
            assert!(back.addr.source() == Some(SocketAddr::V6(src)));
            assert!(back.addr.destination() == Some(SocketAddr::V6(dst)));
        }
        Err(_) => panic!("sozu's own v6 header does not parse"),
    }
    kani::cover!(!is_proxy, "local command");
}

/// mixed families have no v2 encoding: header degrades to UNSPEC/len 0, still well-formed
#[kani::proof]
#[kani::unwind(14)]
fn c18_ppv2_mixed_family_is_unspec() {
    let v4 = any_v4();
    let v6 = any_v6();
    let h = if kani::any() {
        HeaderV2::new(any_cmd(), SocketAddr::V4(v4), SocketAddr::V6(v6))
    } else {
        HeaderV2::new(any_cmd(), SocketAddr::V6(v6), SocketAddr::V4(v4))
    };
    let bytes = h.into_bytes();
    assert!(bytes.len() == 16 && h.len() == 16);
    assert!(bytes[13] == 0 && bytes[14] == 0 && bytes[15] == 0);
    match parse_v2_header(&bytes) {
        Ok((rest, back)) => {
            assert!(rest.is_empty());
            assert!(matches!(back.addr, ProxyAddr::AfUnspec));
            assert!(back.addr.source().is_none());
        }
        Err(_) => panic!("UNSPEC header does not parse"),
    }
    kani::cover!(true, "reached");
}

/// every input of up to MAXLEN bytes: no panic, exact consumption, Incomplete only when
/// bytes are really missing, rejected families/commands/signatures are errors
fn parser_total<const MAXLEN: usize>() {
    let buf: [u8; MAXLEN] = kani::any();
    let n: usize = kani::any();
    kani::assume(n <= MAXLEN);
    let input = &buf[..n];
    let declared = if n >= 16 { ((buf[14] as usize) << 8) | buf[15] as usize } else { 0 };
    let sig_ok = n >= 12 && buf[..12] == SIG;
    let r = parse_v2_header(input);
    let fam = if n >= 14 { buf[13] >> 4 } else { 0 };
    match r {
        Ok((rest, h)) => {
            assert!(sig_ok && n >= 16);
            assert!(n - rest.len() == 16 + declared, "consumed != 16 + declared length");
            assert!(buf[12] == 0x20 || buf[12] == 0x21);
            assert!(fam <= 2);
            assert!(h.family == buf[13]);
            match h.addr {
                ProxyAddr::Ipv4Addr { src_addr, dst_addr } => {
                    assert!(fam == 1 && declared >= 12);
                    assert!(src_addr.ip().octets() == buf[16..20]);
                    assert!(dst_addr.ip().octets() == buf[20..24]);
                    assert!(src_addr.port() == u16::from_be_bytes([buf[24], buf[25]]));
                    assert!(dst_addr.port() == u16::from_be_bytes([buf[26], buf[27]]));
                }
                ProxyAddr::Ipv6Addr { src_addr, dst_addr } => {
                    assert!(fam == 2 && declared >= 36);
                    assert!(src_addr.ip().octets() == buf[16..32]);
                    assert!(dst_addr.port() == u16::from_be_bytes([buf[50], buf[51]]));
                }
                ProxyAddr::AfUnspec => assert!(fam == 0),
                ProxyAddr::UnixAddr { .. } => panic!("unix addresses are never produced"),
            }
            kani::cover!(declared > 12 && fam == 1, "ipv4 with TLV tail");
            kani::cover!(fam == 0 && declared == 0, "LOCAL/UNSPEC 16-byte header");
        }
        Err(NomErr::Incomplete(_)) => {
            // bytes are missing: either of the frame, or (malformed) of the address block
            // inside a too-short declared length; never for a complete well-formed frame
            let frame_missing = n < 16 || n < 16 + declared;
            let block_short = (fam == 1 && declared < 12) || (fam == 2 && declared < 36);
            assert!(frame_missing || block_short, "Incomplete although the frame is complete");
            if n >= 12 {
                assert!(sig_ok, "bad signature must be an error, not Incomplete");
            }
            kani::cover!(n == 20 && sig_ok, "incomplete mid-header");
        }
        Err(NomErr::Error(_)) | Err(NomErr::Failure(_)) => {
            // an error is never raised for a well-formed frame
            let wellformed = sig_ok && n >= 16 && (buf[12] == 0x20 || buf[12] == 0x21) && fam <= 2
                && n >= 16 + declared;
            assert!(!wellformed, "well-formed header rejected");
            kani::cover!(sig_ok && n >= 14 && fam == 3, "unix family rejected");
            kani::cover!(sig_ok && n >= 13 && buf[12] == 0x22, "bad command rejected");
        }
    }
}

#[kani::proof]
#[kani::unwind(18)]
fn c18_ppv2_parser_total_32() {
    parser_total::<32>();
}

#[kani::proof]
#[kani::unwind(18)]
fn c18_ppv2_parser_total_60() {
    parser_total::<60>();
}

// ---------------------------------------------------------------- expect window
/// in-memory socket: hands out `data[..len]` in chunks of scripted sizes, WouldBlock when
/// a chunk is exhausted (like a kernel that has only received part of the stream so far)
pub struct Scripted {
    pub data: [u8; 64],
    pub len: usize,
    pub pos: usize,
    pub chunks: [usize; 4],
    pub call: usize,
    pub sock: mio::net::TcpStream,
}
impl SocketHandler for Scripted {
    fn socket_read(&mut self, buf: &mut [u8]) -> (usize, SocketResult) {
        let chunk = if self.call < 4 { self.chunks[self.call] } else { 64 };
        self.call += 1;
        let avail = self.len - self.pos;
        let mut n = if chunk < avail { chunk } else { avail };
        if buf.len() < n {
            n = buf.len();
        }
        buf[..n].copy_from_slice(&self.data[self.pos..self.pos + n]);
        self.pos += n;
        if n == buf.len() && n > 0 {
            (n, SocketResult::Continue)
        } else {
            (n, SocketResult::WouldBlock)
        }
    }
    fn socket_write(&mut self, _buf: &[u8]) -> (usize, SocketResult) {
        (0, SocketResult::WouldBlock)
    }
    fn socket_write_vectored(&mut self, _buf: &[std::io::IoSlice]) -> (usize, SocketResult) {
        (0, SocketResult::WouldBlock)
    }
    fn socket_ref(&self) -> &mio::net::TcpStream {
        &self.sock
    }
    fn socket_mut(&mut self) -> &mut mio::net::TcpStream {
        &mut self.sock
    }
    fn protocol(&self) -> TransportProtocol {
        TransportProtocol::Tcp
    }
    fn read_error(&self) {}
    fn write_error(&self) {}
}

fn zero_instant() -> std::time::Instant {
    // Instant is a (secs, nanos) pair; all-zero is a valid value. Never compared.
    unsafe { std::mem::zeroed() }
}

fn metrics() -> SessionMetrics {
    SessionMetrics {
        start: None,
        start_wall: None,
        service_time: Duration::from_secs(0),
        wait_time: Duration::from_secs(0),
        bin: 0,
        bout: 0,
        service_start: None,
        wait_start: zero_instant(),
        backend_id: None,
        backend_start: None,
        backend_connected: None,
        backend_stop: None,
        backend_bin: 0,
        backend_bout: 0,
    }
}

/// drive readable() until it stops returning Continue (at most `max_calls` wake-ups);
/// returns (result class 0=upgrade 1=close 2=still waiting, bytes pulled from the socket)
fn drive(stream: [u8; 64], len: usize, max_calls: usize) -> (u8, usize, Option<ProxyAddr>) {
    let chunks: [usize; 4] = kani::any();
    let sock = unsafe { mio::net::TcpStream::from_raw_fd(1000) };
    let s = Scripted { data: stream, len, pos: 0, chunks, call: 0, sock };
    let mut e = ExpectProxyProtocol::new(
        TimeoutContainer::new_empty(Duration::from_secs(1)),
        s,
        mio::Token(1),
        rusty_ulid_zero(),
    );
    let mut m = metrics();
    let mut class = 2u8;
    let mut i = 0;
    while i < max_calls {
        match e.readable(&mut m) {
            SessionResult::Upgrade => {
                class = 0;
                break;
            }
            SessionResult::Close => {
                class = 1;
                break;
            }
            SessionResult::Continue => {}
        }
        i += 1;
    }
    let pulled = e.frontend.pos;
    assert!(m.bin == pulled, "metrics.bin must count exactly the bytes read");
    let addrs = e.addresses.take();
    std::mem::forget(e);
    std::mem::forget(m);
    (class, pulled, addrs)
}

fn rusty_ulid_zero() -> rusty_ulid::Ulid {
    rusty_ulid::Ulid::from(0u128)
}

/// IPv4 header (28 bytes) + payload, any fragmentation over 4 reads + drain
#[kani::proof]
#[kani::unwind(8)]
fn c18_expect_window_v4_any_split() {
    let (src, dst) = (any_v4(), any_v4());
    let h = HeaderV2::new(any_cmd(), SocketAddr::V4(src), SocketAddr::V4(dst));
    let hb = h.into_bytes();
    let mut stream: [u8; 64] = kani::any(); // payload after the header: arbitrary
    stream[..28].copy_from_slice(&hb);
    let (class, pulled, addrs) = drive(stream, 64, 7);
    assert!(class == 0, "well-formed v4 header must upgrade");
    assert!(pulled == 28, "bytes beyond the header were pulled from the socket (lost payload)");
    match addrs {
        Some(a) => {
            assert!(a.source() == Some(SocketAddr::V4(src)));
            assert!(a.destination() == Some(SocketAddr::V4(dst)));
        }
        None => panic!("addresses not recorded"),
    }
    kani::cover!(true, "reached");
}

/// IPv6 header (52 bytes) + payload
#[kani::proof]
#[kani::unwind(8)]
fn c18_expect_window_v6_any_split() {
    let (src, dst) = (any_v6(), any_v6());
    let h = HeaderV2::new(any_cmd(), SocketAddr::V6(src), SocketAddr::V6(dst));
    let hb = h.into_bytes();
    let mut stream: [u8; 64] = kani::any();
    stream[..52].copy_from_slice(&hb);
    let (class, pulled, addrs) = drive(stream, 64, 8);
    assert!(class == 0, "well-formed v6 header must upgrade");
    assert!(pulled == 52, "bytes beyond the header were pulled from the socket (lost payload)");
    match addrs {
        Some(a) => {
            assert!(a.source() == Some(SocketAddr::V6(src)));
            assert!(a.destination() == Some(SocketAddr::V6(dst)));
        }
        None => panic!("addresses not recorded"),
    }
    kani::cover!(true, "reached");
}

/// malformed signature / command / family: Close, and never Upgrade
#[kani::proof]
#[kani::unwind(8)]
fn c18_expect_malformed_closes() {
    let mut stream: [u8; 64] = kani::any();
    // a well-formed prefix with exactly one field broken
    let which: u8 = kani::any();
    kani::assume(which < 3);
    stream[..12].copy_from_slice(&SIG);
    stream[12] = 0x21;
    stream[13] = 0x11;
    stream[14] = 0;
    stream[15] = 12;
    if which == 0 {
        let k: usize = kani::any();
        kani::assume(k < 12);
        let b: u8 = kani::any();
        kani::assume(b != SIG[k]);
        stream[k] = b;
    } else if which == 1 {
        let b: u8 = kani::any();
        kani::assume(b != 0x20 && b != 0x21);
        stream[12] = b;
    } else {
        let b: u8 = kani::any();
        kani::assume((b >> 4) > 2);
        stream[13] = b;
    }
    let (class, pulled, addrs) = drive(stream, 64, 7);
    assert!(class == 1, "malformed header must close the session");
    assert!(addrs.is_none());
    kani::cover!(which == 2, "bad family");
}

/// headers whose total length is not 28 or 52 (LOCAL/UNSPEC with len 0..8, or INET with a
/// TLV tail): the read window must still stop at the end of the header
#[kani::proof]
#[kani::unwind(8)]
fn c18_expect_no_overread_other_lengths() {
    let mut stream: [u8; 64] = kani::any();
    stream[..12].copy_from_slice(&SIG);
    let local: bool = kani::any();
    let hlen;
    if local {
        let l: u8 = kani::any();
        kani::assume(l <= 8);
        stream[12] = 0x20;
        stream[13] = 0x00;
        stream[14] = 0;
        stream[15] = l;
        hlen = 16 + l as usize;
    } else {
        let tlv: u8 = kani::any();
        kani::assume(tlv >= 1 && tlv <= 20);
        stream[12] = 0x21;
        stream[13] = 0x11;
        stream[14] = 0;
        stream[15] = 12 + tlv;
        hlen = 28 + tlv as usize;
    }
    let (class, pulled, _addrs) = drive(stream, 64, 8);
    assert!(class == 0, "well-formed header must upgrade");
    assert!(
        pulled == hlen,
        "expect mode pulled payload bytes past the end of the PROXY header and dropped them"
    );
    kani::cover!(local, "LOCAL/UNSPEC");
    kani::cover!(!local, "INET + TLV");
}
