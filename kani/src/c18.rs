//! C18 — PROXY protocol v2 codec and the expect-mode read window.
//!
//! Real code driven: `HeaderV2::{new,into_bytes,len}`, `ProxyAddr::{from,source,
//! destination}`, `parser::parse_v2_header` (nom), `ExpectProxyProtocol::<S>::readable`
//! with `S` a scripted in-memory `SocketHandler`.
use std::net::{Ipv4Addr, Ipv6Addr, SocketAddr, SocketAddrV4, SocketAddrV6};
use std::os::fd::FromRawFd;
use std::time::Duration;

use nom::Err as NomErr;
use sozu_lib::protocol::proxy_protocol::expect::ExpectProxyProtocol;
use sozu_lib::protocol::proxy_protocol::header::{Command, HeaderV2, ProxyAddr};
use sozu_lib::protocol::proxy_protocol::parser::parse_v2_header;
use sozu_lib::SessionResult;
use sozu_lib::socket::{SocketHandler, SocketResult, TransportProtocol};
use sozu_lib::timer::TimeoutContainer;
use sozu_lib::SessionMetrics;

const SIG: [u8; 12] = [0x0D, 0x0A, 0x0D, 0x0A, 0x00, 0x0D, 0x0A, 0x51, 0x55, 0x49, 0x54, 0x0A];

fn any_v4() -> SocketAddrV4 {
    let o: [u8; 4] = kani::any();
    SocketAddrV4::new(Ipv4Addr::new(o[0], o[1], o[2], o[3]), kani::any())
}
fn any_v6() -> SocketAddrV6 {
    let o: [u8; 16] = kani::any();
    SocketAddrV6::new(Ipv6Addr::from(o), kani::any(), 0, 0)
}
fn any_cmd() -> Command {
    if kani::any() { Command::Local } else { Command::Proxy }
}

#[kani::proof]
#[kani::unwind(17)]
fn c18_ppv2_roundtrip_v4() {
    let (src, dst) = (any_v4(), any_v4());
    let cmd = any_cmd();
    let is_proxy = matches!(cmd, Command::Proxy);
    let h = HeaderV2::new(cmd, SocketAddr::V4(src), SocketAddr::V4(dst));
    let bytes = h.into_bytes();
    assert!(bytes.len() == 28 && h.len() == 28);
    // wire layout (spec section 2.2): signature, ver|cmd, fam|proto, len, addresses
    assert!(bytes[..12] == SIG);
    assert!(bytes[12] == if is_proxy { 0x21 } else { 0x20 });
    assert!(bytes[13] == 0x11);
    assert!(bytes[14] == 0 && bytes[15] == 12);
    assert!(bytes[16..20] == src.ip().octets());
    assert!(bytes[20..24] == dst.ip().octets());
    assert!(bytes[24..26] == src.port().to_be_bytes());
    assert!(bytes[26..28] == dst.port().to_be_bytes());
    match parse_v2_header(&bytes) {
        Ok((rest, back)) => {
            assert!(rest.is_empty());
            assert!(back.family == 0x11);
            assert!(matches!(back.command, Command::Proxy) == is_proxy);
            assert!(back.addr.source() == Some(SocketAddr::V4(src)));
            assert!(back.addr.destination() == Some(SocketAddr::V4(dst)));
            assert!(back == h);
        }
        Err(_) => panic!("sozu's own v4 header does not parse"),
    }
    kani::cover!(is_proxy && src.port() == 65535, "proxy command, max port");
}

#[kani::proof]
#[kani::unwind(18)]
fn c18_ppv2_roundtrip_v6() {
    let (src, dst) = (any_v6(), any_v6());
    let cmd = any_cmd();
    let is_proxy = matches!(cmd, Command::Proxy);
    let h = HeaderV2::new(cmd, SocketAddr::V6(src), SocketAddr::V6(dst));
    let bytes = h.into_bytes();
    assert!(bytes.len() == 52 && h.len() == 52);
    assert!(bytes[..12] == SIG);
    assert!(bytes[12] == if is_proxy { 0x21 } else { 0x20 });
    assert!(bytes[13] == 0x21);
    assert!(bytes[14] == 0 && bytes[15] == 36);
    assert!(bytes[16..32] == src.ip().octets());
    assert!(bytes[32..48] == dst.ip().octets());
    assert!(bytes[48..50] == src.port().to_be_bytes());
    assert!(bytes[50..52] == dst.port().to_be_bytes());
    match parse_v2_header(&bytes) {
        Ok((rest, back)) => {
            assert!(rest.is_empty());
            assert!(back.family == 0x21);
            assert!(matches!(back.command, Command::Proxy) == is_proxy);
            assert!(back.addr.source() == Some(SocketAddr::V6(src)));
            assert!(back.addr.destination() == Some(SocketAddr::V6(dst)));
        }
        Err(_) => panic!("sozu's own v6 header does not parse"),
    }
    kani::cover!(!is_proxy, "local command");
}

/// mixed families have no v2 encoding: header degrades to UNSPEC/len 0, still well-formed
#[kani::proof]
#[kani::unwind(14)]
fn c18_ppv2_mixed_family_is_unspec() {
    let v4 = any_v4();
    let v6 = any_v6();
    let h = if kani::any() {
        HeaderV2::new(any_cmd(), SocketAddr::V4(v4), SocketAddr::V6(v6))
    } else {
        HeaderV2::new(any_cmd(), SocketAddr::V6(v6), SocketAddr::V4(v4))
    };
    let bytes = h.into_bytes();
    assert!(bytes.len() == 16 && h.len() == 16);
    assert!(bytes[13] == 0 && bytes[14] == 0 && bytes[15] == 0);
    match parse_v2_header(&bytes) {
        Ok((rest, back)) => {
            assert!(rest.is_empty());
            assert!(matches!(back.addr, ProxyAddr::AfUnspec));
            assert!(back.addr.source().is_none());
        }
        Err(_) => panic!("UNSPEC header does not parse"),
    }
    kani::cover!(true, "reached");
}

/// every input of up to MAXLEN bytes: no panic, exact consumption, Incomplete only when
/// bytes are really missing, rejected families/commands/signatures are errors
fn parser_total<const MAXLEN: usize>() {
    let buf: [u8; MAXLEN] = kani::any();
    let n: usize = kani::any();
    kani::assume(n <= MAXLEN);
    let input = &buf[..n];
    let declared = if n >= 16 { ((buf[14] as usize) << 8) | buf[15] as usize } else { 0 };
    let sig_ok = n >= 12 && buf[..12] == SIG;
    let r = parse_v2_header(input);
    let fam = if n >= 14 { buf[13] >> 4 } else { 0 };
    match r {
        Ok((rest, h)) => {
            assert!(sig_ok && n >= 16);
            assert!(n - rest.len() == 16 + declared, "consumed != 16 + declared length");
            assert!(buf[12] == 0x20 || buf[12] == 0x21);
            assert!(fam <= 2);
            assert!(h.family == buf[13]);
            match h.addr {
                ProxyAddr::Ipv4Addr { src_addr, dst_addr } => {
                    assert!(fam == 1 && declared >= 12);
                    assert!(src_addr.ip().octets() == buf[16..20]);
                    assert!(dst_addr.ip().octets() == buf[20..24]);
                    assert!(src_addr.port() == u16::from_be_bytes([buf[24], buf[25]]));
                    assert!(dst_addr.port() == u16::from_be_bytes([buf[26], buf[27]]));
                }
                ProxyAddr::Ipv6Addr { src_addr, dst_addr } => {
                    assert!(fam == 2 && declared >= 36);
                    assert!(src_addr.ip().octets() == buf[16..32]);
                    assert!(dst_addr.port() == u16::from_be_bytes([buf[50], buf[51]]));
                }
                ProxyAddr::AfUnspec => assert!(fam == 0),
                ProxyAddr::UnixAddr { .. } => panic!("unix addresses are never produced"),
            }
            kani::cover!(declared > 12 && fam == 1, "ipv4 with TLV tail");
            kani::cover!(fam == 0 && declared == 0, "LOCAL/UNSPEC 16-byte header");
        }
        Err(NomErr::Incomplete(_)) => {
            // bytes are missing: either of the frame, or (malformed) of the address block
            // inside a too-short declared length; never for a complete well-formed frame
            let frame_missing = n < 16 || n < 16 + declared;
            let block_short = (fam == 1 && declared < 12) || (fam == 2 && declared < 36);
            assert!(frame_missing || block_short, "Incomplete although the frame is complete");
            if n >= 12 {
                assert!(sig_ok, "bad signature must be an error, not Incomplete");
            }
            kani::cover!(n == 20 && sig_ok, "incomplete mid-header");
        }
        Err(NomErr::Error(_)) | Err(NomErr::Failure(_)) => {
            // an error is never raised for a well-formed frame
            let wellformed = sig_ok && n >= 16 && (buf[12] == 0x20 || buf[12] == 0x21) && fam <= 2
                && n >= 16 + declared;
            assert!(!wellformed, "well-formed header rejected");
            kani::cover!(sig_ok && n >= 14 && fam == 3, "unix family rejected");
            kani::cover!(sig_ok && n >= 13 && buf[12] == 0x22, "bad command rejected");
        }
    }
}

#[kani::proof]
#[kani::unwind(18)]
fn c18_ppv2_parser_total_32() {
    parser_total::<32>();
}

#[kani::proof]
#[kani::unwind(18)]
fn c18_ppv2_parser_total_60() {
    parser_total::<60>();
}

// ---------------------------------------------------------------- expect window
/// in-memory socket: hands out `data[..len]` in chunks of scripted sizes, WouldBlock when
/// a chunk is exhausted (like a kernel that has only received part of the stream so far)
pub struct Scripted {
    pub data: [u8; 64],
    pub len: usize,
    pub pos: usize,
    pub chunks: [usize; 4],
    pub call: usize,
    pub sock: mio::net::TcpStream,
}
impl SocketHandler for Scripted {
    fn socket_read(&mut self, buf: &mut [u8]) -> (usize, SocketResult) {
        let chunk = if self.call < 4 { self.chunks[self.call] } else { 64 };
        self.call += 1;
        let avail = self.len - self.pos;
        let mut n = if chunk < avail { chunk } else { avail };
        if buf.len() < n {
            n = buf.len();
        }
        // element-wise on purpose: a memcpy makes the whole staging buffer opaque to
        // CBMC's constant propagation and every later branch symbolic
        let mut i = 0;
        while i < n {
            buf[i] = self.data[self.pos + i];
            i += 1;
        }
        self.pos += n;
        if n == buf.len() && n > 0 {
            (n, SocketResult::Continue)
        } else {
            (n, SocketResult::WouldBlock)
        }
    }
    fn socket_write(&mut self, _buf: &[u8]) -> (usize, SocketResult) {
        (0, SocketResult::WouldBlock)
    }
    fn socket_write_vectored(&mut self, _buf: &[std::io::IoSlice]) -> (usize, SocketResult) {
        (0, SocketResult::WouldBlock)
    }
    fn socket_ref(&self) -> &mio::net::TcpStream {
        &self.sock
    }
    fn socket_mut(&mut self) -> &mut mio::net::TcpStream {
        &mut self.sock
    }
    fn protocol(&self) -> TransportProtocol {
        TransportProtocol::Tcp
    }
    fn read_error(&self) {}
    fn write_error(&self) {}
}

fn zero_instant() -> std::time::Instant {
    // Instant is a (secs, nanos) pair; all-zero is a valid value. Never compared.
    unsafe { std::mem::zeroed() }
}

fn metrics() -> SessionMetrics {
    SessionMetrics {
        start: None,
        start_wall: None,
        service_time: Duration::from_secs(0),
        wait_time: Duration::from_secs(0),
        bin: 0,
        bout: 0,
        service_start: None,
        wait_start: zero_instant(),
        backend_id: None,
        backend_start: None,
        backend_connected: None,
        backend_stop: None,
        backend_bin: 0,
        backend_bout: 0,
    }
}

/// Wake `readable()` once per scripted chunk and compare each result with the reference
/// window model `expect(pulled_so_far) -> class` (0 = Upgrade, 1 = Close, 2 = Continue);
/// stops at the first non-Continue result.  The harness, not the solver, decides how many
/// calls happen (an open-ended "until done" loop makes CBMC unroll every iteration with
/// symbolic outcomes: measured 2.4 M steps / > 14 GB).
/// Returns (last class, bytes pulled from the socket, recorded addresses).
fn drive(
    stream: &[u8; 64],
    len: usize,
    chunks: [usize; 4],
    calls: usize,
    expect: fn(usize) -> u8,
) -> (u8, usize, Option<ProxyAddr>) {
    let sock = unsafe { mio::net::TcpStream::from_raw_fd(1000) };
    let s = Scripted { data: *stream, len, pos: 0, chunks, call: 0, sock };
    let mut e = ExpectProxyProtocol::new(
        TimeoutContainer::new_empty(Duration::from_secs(1)),
        s,
        mio::Token(1),
        rusty_ulid_zero(),
    );
    let mut m = metrics();
    let mut class = 2u8;
    let mut i = 0;
    while i < calls {
        let r = e.readable(&mut m);
        class = match r {
            SessionResult::Upgrade => 0,
            SessionResult::Close => 1,
            SessionResult::Continue => 2,
        };
        let want = expect(e.frontend.pos);
        assert!(class == want, "readable() result differs from the window model");
        if want != 2 {
            break;
        }
        i += 1;
    }
    let pulled = e.frontend.pos;
    assert!(m.bin == pulled, "metrics.bin must count exactly the bytes read");
    let addrs = e.addresses.take();
    std::mem::forget(e);
    std::mem::forget(m);
    (class, pulled, addrs)
}

fn expect_v4(pulled: usize) -> u8 {
    if pulled >= 28 { 0 } else { 2 }
}
fn expect_v6(pulled: usize) -> u8 {
    if pulled >= 52 { 0 } else { 2 }
}
fn expect_close_at_16(pulled: usize) -> u8 {
    // signature (12) / command (13) / family (14..16+) errors surface as soon as the
    // offending byte and the bytes nom needs before it are in
    if pulled >= 16 { 1 } else { 2 }
}
fn expect_upgrade_at_16(pulled: usize) -> u8 {
    if pulled >= 16 { 0 } else { 2 }
}
fn expect_upgrade_at_36(pulled: usize) -> u8 {
    if pulled >= 36 { 0 } else { 2 }
}

fn rusty_ulid_zero() -> rusty_ulid::Ulid {
    rusty_ulid::Ulid::from(0u128)
}

const SPLITS_28: [[usize; 4]; 6] = [
    [64, 64, 64, 64], // everything at once (header + payload in one segment)
    [1, 64, 64, 64],
    [12, 4, 64, 64], // signature, then fixed part, then the rest
    [16, 12, 64, 64],
    [27, 1, 64, 64],
    [28, 64, 64, 64],
];
const SPLITS_52: [[usize; 4]; 6] = [
    [64, 64, 64, 64],
    [16, 64, 64, 64],
    [28, 24, 64, 64],
    [29, 64, 64, 64],
    [51, 1, 64, 64],
    [52, 64, 64, 64],
];

/// element-wise header construction (constants stay constants for CBMC's propagation;
/// `c18_ppv2_roundtrip_v4/v6` prove this is byte-for-byte what `into_bytes` emits)
fn put(stream: &mut [u8; 64], at: usize, bytes: &[u8]) {
    let mut i = 0;
    while i < bytes.len() {
        stream[at + i] = bytes[i];
        i += 1;
    }
}

fn check_v4(split: [usize; 4]) {
    let (src, dst) = (any_v4(), any_v4());
    let mut stream: [u8; 64] = kani::any(); // payload after the header: arbitrary
    put(&mut stream, 0, &SIG);
    stream[12] = 0x21; // concrete: a symbolic command byte keeps the parser's error path alive in symex
    stream[13] = 0x11;
    stream[14] = 0;
    stream[15] = 12;
    put(&mut stream, 16, &src.ip().octets());
    put(&mut stream, 20, &dst.ip().octets());
    put(&mut stream, 24, &src.port().to_be_bytes());
    put(&mut stream, 26, &dst.port().to_be_bytes());
    let (class, pulled, addrs) = drive(&stream, 64, split, 5, expect_v4);
    assert!(class == 0, "well-formed v4 header must upgrade");
    assert!(pulled == 28, "bytes beyond the header were pulled from the socket (lost payload)");
    match addrs {
        Some(a) => {
            assert!(a.source() == Some(SocketAddr::V4(src)));
            assert!(a.destination() == Some(SocketAddr::V4(dst)));
        }
        None => panic!("addresses not recorded"),
    }
}

/// v6 address with symbolic first/last octet (the window logic never looks at address
/// bytes; all 2^128 addresses are covered by the codec round-trip harness)
fn sparse_v6() -> SocketAddrV6 {
    let mut o = [0u8; 16];
    o[0] = kani::any();
    o[15] = kani::any();
    SocketAddrV6::new(Ipv6Addr::from(o), kani::any(), 0, 0)
}

fn check_v6(split: [usize; 4]) {
    let (src, dst) = (any_v6(), any_v6());
    let mut stream: [u8; 64] = kani::any();
    put(&mut stream, 0, &SIG);
    stream[12] = 0x21; // concrete: a symbolic command byte keeps the parser's error path alive in symex
    stream[13] = 0x21;
    stream[14] = 0;
    stream[15] = 36;
    put(&mut stream, 16, &src.ip().octets());
    put(&mut stream, 32, &dst.ip().octets());
    put(&mut stream, 48, &src.port().to_be_bytes());
    put(&mut stream, 50, &dst.port().to_be_bytes());
    let (class, pulled, addrs) = drive(&stream, 64, split, 6, expect_v6);
    assert!(class == 0, "well-formed v6 header must upgrade");
    assert!(pulled == 52, "bytes beyond the header were pulled from the socket (lost payload)");
    match addrs {
        Some(a) => {
            assert!(a.source() == Some(SocketAddr::V6(src)));
            assert!(a.destination() == Some(SocketAddr::V6(dst)));
        }
        None => panic!("addresses not recorded"),
    }
}

/// IPv4 header (28 bytes) + payload in one segment
#[kani::proof]
#[kani::unwind(66)]
fn c18_expect_window_v4_one_segment() {
    check_v4(SPLITS_28[0]);
    kani::cover!(true, "reached");
}

/// IPv4 header fragmented 16 + 12
#[kani::proof]
#[kani::unwind(66)]
fn c18_expect_window_v4_split_16_12() {
    check_v4(SPLITS_28[3]);
    kani::cover!(true, "reached");
}

/// IPv6 header (52 bytes) + payload in one segment (window grows 28 -> 52)
#[kani::proof]
#[kani::unwind(66)]
fn c18_expect_window_v6_one_segment() {
    check_v6(SPLITS_52[0]);
    kani::cover!(true, "reached");
}

/// IPv6 header fragmented 29 + rest
#[kani::proof]
#[kani::unwind(66)]
fn c18_expect_window_v6_split_29() {
    check_v6(SPLITS_52[3]);
    kani::cover!(true, "reached");
}

macro_rules! split_harness {
    ($name:ident, $f:ident, $tab:ident, $i:expr) => {
        #[kani::proof]
        #[kani::unwind(66)]
        fn $name() {
            $f($tab[$i]);
            kani::cover!(true, "reached");
        }
    };
}
split_harness!(c18_expect_window_v4_split_1, check_v4, SPLITS_28, 1);
split_harness!(c18_expect_window_v4_split_12_4, check_v4, SPLITS_28, 2);
split_harness!(c18_expect_window_v4_split_27_1, check_v4, SPLITS_28, 4);
split_harness!(c18_expect_window_v4_split_28, check_v4, SPLITS_28, 5);
split_harness!(c18_expect_window_v6_split_16, check_v6, SPLITS_52, 1);
split_harness!(c18_expect_window_v6_split_28_24, check_v6, SPLITS_52, 2);
split_harness!(c18_expect_window_v6_split_51_1, check_v6, SPLITS_52, 4);
split_harness!(c18_expect_window_v6_split_52, check_v6, SPLITS_52, 5);

fn expect_close_at_1(pulled: usize) -> u8 {
    if pulled >= 1 { 1 } else { 2 }
}
fn expect_close_at_12(pulled: usize) -> u8 {
    if pulled >= 12 { 1 } else { 2 }
}
fn expect_close_at_13(pulled: usize) -> u8 {
    if pulled >= 13 { 1 } else { 2 }
}
fn expect_close_at_28(pulled: usize) -> u8 {
    if pulled >= 28 { 1 } else { 2 }
}

fn wellformed_v4_prefix() -> [u8; 64] {
    let mut stream: [u8; 64] = kani::any();
    put(&mut stream, 0, &SIG);
    stream[12] = 0x21;
    stream[13] = 0x11;
    stream[14] = 0;
    stream[15] = 12;
    stream
}

/// first signature byte wrong: closes as soon as one byte is in, whatever follows
#[kani::proof]
#[kani::unwind(66)]
fn c18_expect_bad_signature_first_byte_closes() {
    let mut stream = wellformed_v4_prefix();
    let b: u8 = kani::any();
    kani::assume(b != SIG[0]);
    stream[0] = b;
    let (class, _p, addrs) = drive(&stream, 64, [1, 64, 64, 64], 3, expect_close_at_1);
    assert!(class == 1 && addrs.is_none(), "malformed header must close the session");
    kani::cover!(true, "reached");
}

/// last signature byte wrong, header delivered 5 + 7 + rest
#[kani::proof]
#[kani::unwind(66)]
fn c18_expect_bad_signature_last_byte_closes() {
    let mut stream = wellformed_v4_prefix();
    let b: u8 = kani::any();
    kani::assume(b != SIG[11]);
    stream[11] = b;
    let (class, _p, addrs) = drive(&stream, 64, [5, 7, 64, 64], 4, expect_close_at_12);
    assert!(class == 1 && addrs.is_none(), "malformed header must close the session");
    kani::cover!(true, "reached");
}

/// version/command byte other than 0x20 / 0x21
#[kani::proof]
#[kani::unwind(66)]
fn c18_expect_bad_command_closes() {
    let mut stream = wellformed_v4_prefix();
    let b: u8 = kani::any();
    kani::assume(b != 0x20 && b != 0x21);
    stream[12] = b;
    let (class, _p, addrs) = drive(&stream, 64, [12, 1, 64, 64], 4, expect_close_at_13);
    assert!(class == 1 && addrs.is_none(), "malformed header must close the session");
    kani::cover!(true, "reached");
}

/// unsupported family (UNIX 0x3_, reserved 0x4_..0xF_): closes once the declared block is in
#[kani::proof]
#[kani::unwind(66)]
fn c18_expect_bad_family_closes() {
    let mut stream = wellformed_v4_prefix();
    let b: u8 = kani::any();
    kani::assume((b >> 4) > 2);
    stream[13] = b;
    let (class, _p, addrs) = drive(&stream, 64, [64, 64, 64, 64], 3, expect_close_at_28);
    assert!(class == 1 && addrs.is_none(), "malformed header must close the session");
    kani::cover!(true, "reached");
}

/// headers whose total length is not 28 or 52, delivered in one segment together with
/// payload: the read window must still stop at the end of the header.
/// (a) LOCAL / UNSPEC, len 0 — the 16-byte header HAProxy health checks send
#[kani::proof]
#[kani::unwind(66)]
fn c18_expect_no_overread_local_unspec() {
    let mut stream: [u8; 64] = kani::any();
    put(&mut stream, 0, &SIG);
    stream[12] = 0x20;
    stream[13] = 0x00;
    stream[14] = 0;
    stream[15] = 0;
    let (class, pulled, _addrs) = drive(&stream, 64, [64, 64, 64, 64], 3, expect_upgrade_at_16);
    assert!(class == 0, "well-formed header must upgrade");
    assert!(
        pulled == 16,
        "expect mode pulled payload bytes past the end of the PROXY header and dropped them"
    );
    kani::cover!(true, "reached");
}

/// (b) PROXY / INET with an 8-byte TLV tail (36-byte header)
#[kani::proof]
#[kani::unwind(66)]
fn c18_expect_no_overread_inet_tlv() {
    let mut stream: [u8; 64] = kani::any();
    put(&mut stream, 0, &SIG);
    stream[12] = 0x21;
    stream[13] = 0x11;
    stream[14] = 0;
    stream[15] = 12 + 8;
    let (class, pulled, _addrs) = drive(&stream, 64, [64, 64, 64, 64], 3, expect_upgrade_at_36);
    assert!(class == 0, "well-formed header must upgrade");
    assert!(
        pulled == 36,
        "expect mode pulled payload bytes past the end of the PROXY header and dropped them"
    );
    kani::cover!(true, "reached");
}


/// every single cut position of the v4 header (header split in 2 pieces + payload)
#[kani::proof]
#[kani::unwind(66)]
fn c18_expect_window_v4_all_cuts() {
    let mut c = 0;
    while c <= 28 {
        check_v4([c, 64, 64, 64]);
        c += 1;
    }
    kani::cover!(c == 29, "all cuts");
}

/// cut positions of the v6 header around every field / window boundary
#[kani::proof]
#[kani::unwind(66)]
fn c18_expect_window_v6_boundary_cuts() {
    let cuts: [usize; 11] = [0, 1, 12, 13, 16, 27, 28, 29, 40, 51, 52];
    let mut k = 0;
    while k < 11 {
        check_v6([cuts[k], 64, 64, 64]);
        k += 1;
    }
    kani::cover!(k == 11, "all cuts");
}

/// three-piece fragmentations incl. empty wake-ups
#[kani::proof]
#[kani::unwind(66)]
fn c18_expect_window_three_pieces() {
    check_v4([0, 12, 4, 64]);
    check_v4([13, 0, 15, 64]);
    check_v4([27, 1, 64, 64]);
    check_v6([12, 16, 24, 64]);
    check_v6([28, 0, 24, 64]);
    check_v6([51, 1, 64, 64]);
    kani::cover!(true, "reached");
}

/// quick-tier three-piece case with an empty wake-up in the middle
#[kani::proof]
#[kani::unwind(66)]
fn c18_expect_window_v4_13_0_15() {
    check_v4([13, 0, 15, 64]);
    kani::cover!(true, "reached");
}
