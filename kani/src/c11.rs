//! C11 — command channel framing and buffer discipline.
//!
//! Real code driven: `sozu_command_lib::buffer::growable::Buffer` (all ops used by the
//! channel) and `sozu_command_lib::channel::Channel::{write_delimited_message,
//! write_message, read_message}` (→ private `try_read_delimited_message`, `grow_size`,
//! `try_shrink_front_buf`).  The socket is never touched: bytes move from the sender's
//! `back_buf` to the receiver's `front_buf` the way `readable()` moves them (into
//! `space()`, then `fill(n)`), in pieces of symbolic size.
//!
//! Bounds: buffer capacities are concrete (symbolic-size heap objects are out of CBMC's
//! reach), payload lengths are concrete per harness, payload *contents*, split points,
//! prefixes and op arguments are symbolic.
use std::io::{Read, Write};
use std::os::fd::FromRawFd;

use prost::bytes::{Buf, BufMut};
use prost::DecodeError;
use sozu_command_lib::buffer::growable::Buffer;
use sozu_command_lib::channel::{delimiter_size, Channel, ChannelError};

// ---------------------------------------------------------------- message stand-in
/// A minimal `prost::Message`: the payload is `len` raw bytes; a payload starting with
/// 0xFF, or longer than 4 bytes, does not decode.  (sozu's real `WorkerRequest` codec is
/// outside the bound; the framing code is generic in the message type.)
#[derive(Debug, Clone, Copy, PartialEq)]
pub struct Raw {
    pub len: usize,
    pub b: [u8; 4],
}
impl Default for Raw {
    fn default() -> Self {
        Raw { len: 0, b: [0; 4] }
    }
}
impl prost::Message for Raw {
    fn encode_raw(&self, buf: &mut impl BufMut) {
        buf.put_slice(&self.b[..self.len]);
    }
    fn merge_field(
        &mut self,
        _tag: u32,
        _wire_type: prost::encoding::WireType,
        _buf: &mut impl Buf,
        _ctx: prost::encoding::DecodeContext,
    ) -> Result<(), DecodeError> {
        unreachable!()
    }
    fn encoded_len(&self) -> usize {
        self.len
    }
    fn clear(&mut self) {
        *self = Raw::default();
    }
    fn merge(&mut self, mut buf: impl Buf) -> Result<(), DecodeError> {
        let n = buf.remaining();
        if n > 4 {
            return Err(DecodeError::new("too long"));
        }
        let mut i = 0;
        while i < n {
            self.b[i] = buf.get_u8();
            i += 1;
        }
        self.len = n;
        if n > 0 && self.b[0] == 0xFF {
            return Err(DecodeError::new("bad payload"));
        }
        Ok(())
    }
}

type Chan = Channel<Raw, Raw>;

/// result classes; the error value is never dropped (io::Error drop glue is a deep
/// recursion for CBMC)
const R_OK: u8 = 0;
const R_NOTHING: u8 = 1;
const R_TOO_LARGE: u8 = 2;
const R_UNDER: u8 = 3;
const R_INVALID: u8 = 4;
const R_OTHER: u8 = 5;
fn classify(r: Result<Raw, ChannelError>) -> (u8, Raw, usize) {
    let out = match &r {
        Ok(m) => (R_OK, *m, 0),
        Err(ChannelError::NothingRead) => (R_NOTHING, Raw::default(), 0),
        Err(ChannelError::MessageTooLarge { message_len, .. }) => (R_TOO_LARGE, Raw::default(), *message_len),
        Err(ChannelError::MessageLengthUnderDelimiter { message_len, .. }) => (R_UNDER, Raw::default(), *message_len),
        Err(ChannelError::InvalidProtobufMessage(_)) => (R_INVALID, Raw::default(), 0),
        Err(_) => (R_OTHER, Raw::default(), 0),
    };
    std::mem::forget(r);
    out
}
fn wclass(r: Result<(), ChannelError>) -> u8 {
    let out = match &r {
        Ok(()) => R_OK,
        Err(ChannelError::MessageTooLarge { .. }) => R_TOO_LARGE,
        Err(_) => R_OTHER,
    };
    std::mem::forget(r);
    out
}


/// a channel whose socket is a never-used fd number (never read, never closed: every
/// harness `mem::forget`s its channels)
fn chan(buffer_size: u64, max: u64) -> Chan {
    let sock = unsafe { mio::net::UnixStream::from_raw_fd(1000) };
    Channel::new(sock, buffer_size, max)
}

fn any_raw(len: usize) -> Raw {
    let b: [u8; 4] = kani::any();
    // decodable payloads only (0xFF-first is the "does not decode" class)
    kani::assume(len == 0 || b[0] != 0xFF);
    let mut m = Raw { len, b: [0; 4] };
    let mut i = 0;
    while i < len {
        m.b[i] = b[i];
        i += 1;
    }
    m
}

/// what `Channel::readable()` does with bytes the kernel hands over: copy at most
/// `space()` bytes to the free tail, then `fill`.  Returns how many were taken.
fn deliver(rx: &mut Chan, bytes: &[u8]) -> usize {
    let space = rx.front_buf.available_space();
    let n = if bytes.len() < space { bytes.len() } else { space };
    rx.front_buf.space()[..n].copy_from_slice(&bytes[..n]);
    rx.front_buf.fill(n);
    n
}

// ---------------------------------------------------------------- Buffer
/// reach an arbitrary *reachable* buffer state through the public API only
fn any_buffer(cap: usize) -> Buffer {
    // capacity is concrete (a symbolic-size heap object makes CBMC run out of memory);
    // positions inside it are symbolic
    let mut b = Buffer::with_capacity(cap);
    let a: usize = kani::any();
    let c: usize = kani::any();
    let d: usize = kani::any();
    kani::assume(a <= cap && c <= cap && d <= cap);
    b.fill(a);
    b.consume(c);
    b.fill(d);
    b
}

#[kani::proof]
#[kani::unwind(10)]
fn c11_buffer_fill_consume_invariant() {
    let mut b = any_buffer(8);
    let cap = b.capacity();
    let data0 = b.available_data();
    let space0 = b.available_space();
    assert!(data0 + space0 <= cap);
    let n: usize = kani::any();
    if kani::any() {
        let got = b.fill(n);
        assert!(got == n.min(space0));
        assert!(b.available_data() == data0 + got);
        kani::cover!(got > 0 && got < n, "fill clipped");
    } else {
        let got = b.consume(n);
        assert!(got == n.min(data0));
        assert!(b.available_data() == data0 - got);
        kani::cover!(got > 0 && got < n, "consume clipped");
    }
    assert!(b.capacity() == cap);
    assert!(b.available_data() + b.available_space() <= cap);
    assert!(b.data().len() == b.available_data());
    assert!(b.space().len() == b.available_space());
}

/// content preservation across the auto-shift heuristics of fill/consume and shift()
#[kani::proof]
#[kani::unwind(10)]
fn c11_buffer_shift_preserves_data() {
    let mut b = Buffer::with_capacity(8);
    let content: [u8; 8] = kani::any();
    b.space().copy_from_slice(&content);
    let a: usize = kani::any();
    let c: usize = kani::any();
    kani::assume(a <= 8 && c <= a);
    b.fill(a); // may shift
    b.consume(c); // may shift
    let n = b.available_data();
    assert!(n == a - c);
    let mut i = 0;
    while i < n {
        assert!(b.data()[i] == content[c + i]);
        i += 1;
    }
    b.shift();
    assert!(b.available_data() == n);
    let mut i = 0;
    while i < n {
        assert!(b.data()[i] == content[c + i]);
        i += 1;
    }
    kani::cover!(n > 2 && c > 0, "non-trivial shift");
}

/// grow / shrink keep pending bytes, never lose the representation invariant
#[kani::proof]
#[kani::unwind(18)]
fn c11_buffer_grow_shrink_preserve() {
    let mut b = Buffer::with_capacity(8);
    let content: [u8; 8] = kani::any();
    b.space().copy_from_slice(&content);
    let a: usize = kani::any();
    let c: usize = kani::any();
    kani::assume(a <= 8 && c <= a);
    b.fill(a);
    b.consume(c);
    let n = b.available_data();
    // target sizes: concrete menu, chosen symbolically
    let pick: u8 = kani::any();
    let target = match pick % 4 {
        0 => 2,
        1 => 4,
        2 => 8,
        _ => 16,
    };
    let cap0 = b.capacity();
    if kani::any() {
        let grew = b.grow(target);
        assert!(grew == (target > cap0));
        assert!(b.capacity() == if grew { target } else { cap0 });
        kani::cover!(grew, "grew");
    } else {
        let shrunk = b.shrink(target);
        if shrunk {
            assert!(b.capacity() == target && n <= target);
        } else {
            assert!(b.capacity() == cap0);
            assert!(target >= cap0 || n > target);
        }
        kani::cover!(shrunk && n > 0, "shrunk with data");
        kani::cover!(!shrunk && target < cap0, "shrink refused: data would not fit");
    }
    assert!(b.available_data() == n);
    assert!(b.available_data() + b.available_space() <= b.capacity());
    let mut i = 0;
    while i < n {
        assert!(b.data()[i] == content[c + i]);
        i += 1;
    }
}

/// Read/Write impls used by write_delimited_message (write_all) move exactly the bytes
#[kani::proof]
#[kani::unwind(10)]
fn c11_buffer_write_read_exact() {
    let mut b = any_buffer(8);
    let data0 = b.available_data();
    let space0 = b.available_space();
    let src: [u8; 4] = kani::any();
    let k: usize = kani::any();
    kani::assume(k <= 4);
    let w = b.write(&src[..k]).unwrap();
    assert!(w == k.min(space0));
    assert!(b.available_data() == data0 + w);
    // the freshly written bytes are the tail of data()
    let d = b.data();
    let mut i = 0;
    while i < w {
        assert!(d[data0 + i] == src[i]);
        i += 1;
    }
    let mut dst = [0u8; 4];
    let avail = b.available_data();
    let first = if avail > 0 { b.data()[0] } else { 0 };
    let r = b.read(&mut dst).unwrap();
    assert!(r == avail.min(4));
    assert!(b.available_data() == avail - r);
    if r > 0 {
        assert!(dst[0] == first);
    }
    kani::cover!(w > 0 && w < k, "short write");
    kani::cover!(r == 4, "full read");
}

// ---------------------------------------------------------------- framing
/// two messages, written with the real writer, re-framed by the real reader when the
/// byte stream is delivered in two pieces cut at `cut`
fn reframe(len1: usize, len2: usize, cap: u64, max: u64, cut: usize) {
    let m1 = any_raw(len1);
    let m2 = any_raw(len2);
    let mut tx = chan(cap, max);
    let mut rx = chan(cap, max);
    assert!(wclass(tx.write_message(&m1)) == R_OK);
    assert!(wclass(tx.write_message(&m2)) == R_OK);
    assert!(tx.back_buf.capacity() as u64 <= max);
    let total = 16 + len1 + len2;
    assert!(tx.back_buf.available_data() == total);
    let mut stream = [0u8; 24];
    stream[..total].copy_from_slice(tx.back_buf.data());
    // prefix = total frame length, native endian (LE on x86-64)
    assert!(usize::from_le_bytes(stream[..8].try_into().unwrap()) == 8 + len1);

    let cuts = [0, cut, total];
    let mut got = [Raw::default(); 2];
    let mut ngot = 0usize;
    let mut piece = 0;
    while piece < 2 {
        let mut off = cuts[piece];
        let end = cuts[piece + 1];
        // the kernel hands over this piece; when the buffer is full the caller drains
        // (read_message either yields a message or grows the buffer)
        let mut guard = 0;
        loop {
            let took = deliver(&mut rx, &stream[off..end]);
            off += took;
            // drain: everything decodable now
            let mut inner = 0;
            loop {
                let (c, m, _) = classify(rx.read_message());
                if c == R_OK {
                    assert!(ngot < 2, "a third message was produced");
                    got[ngot] = m;
                    ngot += 1;
                } else {
                    assert!(c == R_NOTHING, "well-formed stream produced a channel error");
                    break;
                }
                inner += 1;
                if inner > 2 {
                    break;
                }
            }
            assert!(rx.front_buf.capacity() as u64 <= max, "front buffer above ceiling");
            guard += 1;
            if off >= end || guard > 2 {
                break;
            }
        }
        assert!(off == end, "receiver could not absorb the piece");
        // nothing is decoded early: a message is out only if all its bytes were delivered
        if ngot >= 1 {
            assert!(end >= 8 + len1);
        }
        if ngot >= 2 {
            assert!(end >= total);
        }
        piece += 1;
    }
    assert!(ngot == 2, "both messages delivered exactly once");
    assert!(got[0] == m1);
    assert!(got[1] == m2);
    assert!(rx.front_buf.available_data() == 0);
    std::mem::forget(tx);
    std::mem::forget(rx);
}

/// symbolic cut point, no growth needed (32-byte buffers)
#[kani::proof]
#[kani::unwind(9)]
fn c11_reframe_any_cut_3_0() {
    let cut: usize = kani::any();
    kani::assume(cut <= 19);
    reframe(3, 0, 32, 32, cut);
    kani::cover!(cut > 0 && cut < 8, "cut inside first prefix");
    kani::cover!(cut > 11 && cut < 19, "cut inside second prefix");
}

/// 24 bytes through 16-byte buffers: both sides must grow (ceiling 32); cut points
/// enumerated concretely (symbolic offsets + realloc exhaust CBMC), contents symbolic
#[kani::proof]
#[kani::unwind(18)]
fn c11_reframe_grow_cuts() {
    let cuts: [usize; 4] = [3, 12, 16, 21];
    let mut i = 0;
    while i < 4 {
        reframe(4, 4, 16, 32, cuts[i]);
        i += 1;
    }
    kani::cover!(i == 4, "all cuts done");
}

#[kani::proof]
#[kani::unwind(27)]
fn c11_reframe_grow_all_cuts() {
    let mut cut = 0;
    while cut <= 24 {
        reframe(4, 4, 16, 32, cut);
        cut += 1;
    }
    kani::cover!(cut == 25, "all cuts done");
}

/// ceiling just above the traffic: grow path clips at max (12 -> 24, 19 bytes)
#[kani::proof]
#[kani::unwind(21)]
fn c11_reframe_tight_all_cuts() {
    let mut cut = 0;
    while cut <= 19 {
        reframe(1, 2, 12, 24, cut);
        cut += 1;
    }
    kani::cover!(cut == 20, "all cuts done");
}

/// arbitrary 8-byte prefix (+ up to 8 more bytes): error class, no panic, no growth past
/// the ceiling, and re-synchronisation after an under-delimiter prefix
#[kani::proof]
#[kani::unwind(18)]
fn c11_bad_prefix_is_error_not_panic() {
    let mut rx = chan(16, 32);
    let bytes: [u8; 16] = kani::any();
    let n: usize = kani::any();
    kani::assume(n >= 8 && n <= 16);
    let took = deliver(&mut rx, &bytes[..n]);
    assert!(took == n);
    let declared = usize::from_le_bytes(bytes[..8].try_into().unwrap());
    let before = rx.front_buf.available_data();
    let (c, m, mlen) = classify(rx.read_message());
    assert!(rx.front_buf.capacity() <= 32);
    if c == R_TOO_LARGE {
        assert!(declared > 32 && mlen == declared);
    } else if c == R_UNDER {
        assert!(declared < 8 && mlen == declared);
        // the bogus prefix is dropped: whatever followed is now at the front
        assert!(rx.front_buf.available_data() == before - 8);
    } else if c == R_NOTHING {
        assert!(declared >= 8 && declared <= 32 && n < declared);
        assert!(rx.front_buf.available_data() == before);
    } else if c == R_OK {
        assert!(declared >= 8 && declared <= n);
        assert!(m.len == declared - 8);
        assert!(rx.front_buf.available_data() == before - declared);
    } else if c == R_INVALID {
        assert!(declared >= 8 && declared <= n);
    } else {
        panic!("unexpected error class");
    }
    kani::cover!(c == R_TOO_LARGE, "too large");
    kani::cover!(c == R_UNDER, "under delimiter");
    kani::cover!(c == R_NOTHING, "incomplete frame waits");
    kani::cover!(c == R_OK && m.len == 4, "well-formed frame");
    kani::cover!(c == R_INVALID, "undecodable payload");
    std::mem::forget(rx);
}

/// after an under-delimiter prefix the next valid frame is delivered (re-sync)
#[kani::proof]
#[kani::unwind(9)]
fn c11_under_delimiter_resyncs() {
    let mut rx = chan(32, 32);
    let bad: usize = kani::any();
    kani::assume(bad < 8);
    let m = any_raw(2);
    let mut tx = chan(16, 32);
    assert!(wclass(tx.write_message(&m)) == R_OK);
    deliver(&mut rx, &bad.to_le_bytes());
    let mut frame = [0u8; 10];
    frame.copy_from_slice(tx.back_buf.data());
    deliver(&mut rx, &frame);
    let (c, _, _) = classify(rx.read_message());
    assert!(c == R_UNDER, "under-delimiter prefix not reported");
    let (c, got, _) = classify(rx.read_message());
    assert!(c == R_OK && got == m, "valid frame after a bad prefix was not delivered");
    kani::cover!(bad == 7, "largest bad length");
    std::mem::forget(tx);
    std::mem::forget(rx);
}

/// "…or whose payload does not decode, yields an error — never … a permanently wedged
/// channel": a complete frame with an undecodable payload, followed by a valid frame.
#[kani::proof]
#[kani::unwind(9)]
fn c11_undecodable_frame_not_wedged() {
    let mut rx = chan(32, 32);
    let mut tx = chan(32, 32);
    // frame 1: payload starts with 0xFF => Raw::merge fails
    let plen: usize = kani::any();
    kani::assume(plen >= 1 && plen <= 3);
    let mut bad = [0u8; 11];
    bad[..8].copy_from_slice(&(8 + plen).to_le_bytes());
    bad[8] = 0xFF;
    bad[9] = kani::any();
    bad[10] = kani::any();
    deliver(&mut rx, &bad[..8 + plen]);
    // frame 2: valid
    let m = any_raw(2);
    assert!(wclass(tx.write_message(&m)) == R_OK);
    let mut frame = [0u8; 10];
    frame.copy_from_slice(tx.back_buf.data());
    deliver(&mut rx, &frame);
    let (c, _, _) = classify(rx.read_message());
    assert!(c == R_INVALID, "undecodable payload must be reported as InvalidProtobufMessage");
    // the channel must not be wedged on the bad frame: the next call gets frame 2
    let (c, got, _) = classify(rx.read_message());
    assert!(c == R_OK, "channel wedged: undecodable frame left in the buffer");
    assert!(got == m, "frame after an undecodable one was altered");
    kani::cover!(plen == 3, "3-byte bad payload");
    std::mem::forget(tx);
    std::mem::forget(rx);
}

/// write side: either MessageTooLarge with the buffer untouched, or exactly 8+len more
/// pending bytes, earlier pending bytes intact, capacity within the ceiling.
/// Positions are enumerated concretely (symbolic offsets into the heap buffer make CBMC's
/// array encoding explode: measured > 26 GB); byte contents are symbolic.
fn write_grow_bounded(pre: usize, drained: usize, newlen: usize) -> u8 {
    let mut tx = chan(12, 24);
    // pre-existing pending bytes: `pre` earlier 9-byte frames, partially drained
    let m0 = any_raw(1);
    let mut k = 0;
    while k < pre {
        assert!(wclass(tx.write_message(&m0)) == R_OK);
        k += 1;
    }
    tx.back_buf.consume(drained);
    let before = tx.back_buf.available_data();
    assert!(before == pre * 9 - drained);
    let last = if before > 0 { tx.back_buf.data()[before - 1] } else { 0 };
    let first = if before > 0 { tx.back_buf.data()[0] } else { 0 };
    let m = any_raw(newlen);
    let need = 8 + m.len;
    let c = wclass(tx.write_message(&m));
    assert!(tx.back_buf.capacity() <= 24);
    if c == R_OK {
        assert!(tx.back_buf.available_data() == before + need);
        // the new frame's prefix sits right after the old pending bytes
        let d = tx.back_buf.data();
        assert!(usize::from_le_bytes(d[before..before + 8].try_into().unwrap()) == need);
        if newlen == 4 {
            assert!(d[before + 8] == m.b[0] && d[before + 11] == m.b[3]);
        }
    } else {
        assert!(c == R_TOO_LARGE);
        assert!(before + need > 24, "refused although it fits under the ceiling");
        assert!(tx.back_buf.available_data() == before);
    }
    if before > 0 {
        assert!(tx.back_buf.data()[0] == first);
        assert!(tx.back_buf.data()[before - 1] == last);
    }
    std::mem::forget(tx);
    c
}

fn write_grow_all(newlen: usize) {
    let mut ok = 0;
    let mut refused = 0;
    let mut pre = 0;
    while pre <= 2 {
        let mut drained = 0;
        while drained <= pre * 9 {
            if write_grow_bounded(pre, drained, newlen) == R_OK {
                ok += 1;
            } else {
                refused += 1;
            }
            drained += 1;
        }
        pre += 1;
    }
    kani::cover!(ok > 0 && refused > 0, "both outcomes seen");
}

#[kani::proof]
#[kani::unwind(21)]
fn c11_write_grow_bounded_len4() {
    write_grow_all(4);
}

#[kani::proof]
#[kani::unwind(21)]
fn c11_write_grow_bounded_len0() {
    write_grow_all(0);
}

/// quick tier: the boundary positions only (fits / fits after shift / needs grow / refused)
#[kani::proof]
#[kani::unwind(14)]
fn c11_write_grow_bounded_boundaries() {
    let mut ok = 0;
    let mut refused = 0;
    // (2,7)/(2,9): position > 0 without auto-shift, and the new frame fits only once the
    // pending bytes are compacted (pending + frame <= max < position + pending + frame)
    let cases: [(usize, usize); 6] = [(1, 0), (1, 9), (2, 5), (2, 7), (2, 9), (2, 14)];
    let mut i = 0;
    while i < 6 {
        if write_grow_bounded(cases[i].0, cases[i].1, 4) == R_OK {
            ok += 1;
        } else {
            refused += 1;
        }
        i += 1;
    }
    kani::cover!(ok > 0 && refused > 0, "both outcomes seen");
}
