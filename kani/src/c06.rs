//! C06 — the merge-join the configuration diff is built on, and the order it relies on.
//!
//! Real code driven: `state::diff_map` (generic `DiffMap` iterator, instantiated at
//! `K = u8, V = u8` through the `verif` wrapper) and `response::Backend: Ord / Eq`.
use std::cmp::Ordering;
use std::net::{Ipv4Addr, SocketAddr, SocketAddrV4};

use sozu_command_lib::proto::command::LoadBalancingParams;
use sozu_command_lib::response::Backend;
use sozu_command_lib::state::verif::diff_map_pairs;

/// strictly increasing key sequence of symbolic length <= 3 over symbolic keys/values
fn any_sorted() -> ([(u8, u8); 3], usize) {
    let a: [(u8, u8); 3] = kani::any();
    let n: usize = kani::any();
    kani::assume(n <= 3);
    // precondition at every call site: keys come from BTreeMap iteration (strictly increasing)
    kani::assume(n < 2 || a[0].0 < a[1].0);
    kani::assume(n < 3 || a[1].0 < a[2].0);
    (a, n)
}

fn find(s: &[(u8, u8)], k: u8) -> Option<u8> {
    let mut i = 0;
    while i < s.len() {
        if s[i].0 == k {
            return Some(s[i].1);
        }
        i += 1;
    }
    None
}

/// the emitted list is exactly {B\A -> Added, A\B -> Removed, A∩B with v != v' -> Changed},
/// each key at most once, in increasing key order
#[kani::proof]
#[kani::unwind(8)]
fn c06_diff_map_exact() {
    let (a, na) = any_sorted();
    let (b, nb) = any_sorted();
    let (my, other) = (&a[..na], &b[..nb]);
    let mut out = [(0u8, 0u8); 6];
    let mut n = 0;
    for (k, kind) in diff_map_pairs(my, other) {
        assert!(n < 6, "more results than keys");
        out[n] = (k, kind);
        n += 1;
    }
    // soundness of every emitted item, and strictly increasing keys (no duplicates)
    let mut i = 0;
    while i < n {
        let (k, kind) = out[i];
        let (ia, ib) = (find(my, k), find(other, k));
        match kind {
            0 => assert!(ia.is_none() && ib.is_some(), "Added for a key that is not new"),
            1 => assert!(ia.is_some() && ib.is_none(), "Removed for a key that is still there"),
            _ => assert!(ia.is_some() && ib.is_some() && ia != ib, "Changed for an unchanged key"),
        }
        if i > 0 {
            assert!(out[i - 1].0 < k, "key emitted twice or out of order");
        }
        i += 1;
    }
    // completeness: every key that differs is emitted
    let probe: u8 = kani::any();
    let (pa, pb) = (find(my, probe), find(other, probe));
    let differs = pa != pb;
    let mut emitted = false;
    let mut i = 0;
    while i < n {
        if out[i].0 == probe {
            emitted = true;
        }
        i += 1;
    }
    assert!(emitted == differs, "a differing key was not emitted (or an equal one was)");
    kani::cover!(n == 6, "all keys differ");
    kani::cover!(n == 0 && na == 3, "equal maps");
    kani::cover!(na == 3 && nb == 3 && n == 1 && out[0].1 == 2, "single change");
}

/// diff(A, A) is empty
#[kani::proof]
#[kani::unwind(8)]
fn c06_diff_map_identity_is_empty() {
    let (a, na) = any_sorted();
    let mut n = 0;
    for _ in diff_map_pairs(&a[..na], &a[..na]) {
        n += 1;
    }
    assert!(n == 0);
    kani::cover!(na == 3, "three keys");
}

// ---------------------------------------------------------------- Backend ordering
fn any_backend() -> Backend {
    let s = |k: u8| -> String { if k % 2 == 0 { "a".to_string() } else { "b".to_string() } };
    let o: [u8; 4] = kani::any();
    let port: u16 = kani::any();
    let sticky: u8 = kani::any();
    let backup: u8 = kani::any();
    let lb: u8 = kani::any();
    Backend {
        cluster_id: s(kani::any()),
        backend_id: s(kani::any()),
        address: SocketAddr::V4(SocketAddrV4::new(Ipv4Addr::new(o[0], o[1], o[2], o[3]), port)),
        sticky_id: match sticky % 3 {
            0 => None,
            1 => Some("a".to_string()),
            _ => Some("b".to_string()),
        },
        load_balancing_parameters: if lb % 2 == 0 { None } else { Some(LoadBalancingParams { weight: (lb / 2) as i32 }) },
        backup: match backup % 3 {
            0 => None,
            1 => Some(false),
            _ => Some(true),
        },
    }
}

/// `cmp == Equal <=> ==`, antisymmetry — the order the backend lists are sorted by
#[kani::proof]
#[kani::unwind(6)]
fn c06_backend_order_consistent() {
    let a = any_backend();
    let b = any_backend();
    let ab = a.cmp(&b);
    let ba = b.cmp(&a);
    assert!((ab == Ordering::Equal) == (a == b), "Backend::cmp Equal must coincide with ==");
    assert!(ab == ba.reverse(), "Backend::cmp must be antisymmetric");
    assert!(a.cmp(&a) == Ordering::Equal);
    kani::cover!(ab == Ordering::Less && a.backend_id == b.backend_id && a.address != b.address, "same id, different address");
    kani::cover!(a == b, "equal backends");
    std::mem::forget((a, b));
}

/// transitivity on three backends that differ only in address / backup / weight
#[kani::proof]
#[kani::unwind(6)]
fn c06_backend_order_transitive() {
    let mk = || -> Backend {
        let o: [u8; 4] = kani::any();
        let backup: u8 = kani::any();
        Backend {
            cluster_id: "c".to_string(),
            backend_id: "b".to_string(),
            address: SocketAddr::V4(SocketAddrV4::new(Ipv4Addr::new(o[0], o[1], o[2], o[3]), kani::any())),
            sticky_id: None,
            load_balancing_parameters: None,
            backup: match backup % 3 {
                0 => None,
                1 => Some(false),
                _ => Some(true),
            },
        }
    };
    let (a, b, c) = (mk(), mk(), mk());
    if a.cmp(&b) != Ordering::Greater && b.cmp(&c) != Ordering::Greater {
        assert!(a.cmp(&c) != Ordering::Greater, "Backend::cmp must be transitive");
    }
    kani::cover!(a.cmp(&b) == Ordering::Less && b.cmp(&c) == Ordering::Less, "strict chain");
    std::mem::forget((a, b, c));
}
