//! C04 — rule identity, match contracts and order-independent selection by precedence.
//!
//! Real code driven: `PathRule::{eq,matches}`, `MethodRule::{eq,matches}`,
//! `DomainRule::{eq,matches}` (Any/Exact/Wildcard), `router::select_tree_rule` (the
//! path/method selection kernel of `Router::lookup`).  Regex rules are outside the
//! bound (compiling a `regex::Regex` is out of CBMC's reach); the host trie (HashMap)
//! is not exercised.
use sozu_lib::protocol::http::parser::Method;
use sozu_lib::router::verif::select_tree_rule;
use sozu_lib::router::{DomainRule, MethodRule, MethodRuleResult, PathRule, PathRuleResult, Route};

/// an ASCII string of concrete length `n <= 3` with symbolic bytes
fn any_str(n: usize) -> String {
    let b: [u8; 3] = kani::any();
    kani::assume(b[0] < 128 && b[1] < 128 && b[2] < 128);
    let mut v = Vec::with_capacity(n);
    let mut i = 0;
    while i < n {
        v.push(b[i]);
        i += 1;
    }
    unsafe { String::from_utf8_unchecked(v) }
}

fn any_path_rule(n: usize) -> (PathRule, bool) {
    let equals: bool = kani::any();
    let s = any_str(n);
    if equals { (PathRule::Equals(s), true) } else { (PathRule::Prefix(s), false) }
}

fn rule_str(r: &PathRule) -> &str {
    match r {
        PathRule::Prefix(s) | PathRule::Equals(s) => s.as_str(),
        PathRule::Regex(_) => unreachable!(),
    }
}

/// `==` on path rules is an equivalence that is exactly "same kind and same string"
/// (this is the identity add_tree_rule de-duplicates on and remove_tree_rule retains on)
#[kani::proof]
#[kani::unwind(5)]
fn c04_path_rule_identity() {
    let (a, a_eq) = any_path_rule(2);
    let (b, b_eq) = any_path_rule(2);
    // (clones are forgotten, never dropped: PathRule's drop glue contains regex::Regex)
    let ac = a.clone();
    assert!(a == ac, "rule must equal its own clone");
    std::mem::forget(ac);
    assert!((a == b) == (b == a));
    let same = a_eq == b_eq && rule_str(&a).as_bytes() == rule_str(&b).as_bytes();
    assert!((a == b) == same, "rule identity must be exactly kind + string");
    kani::cover!(a_eq && b_eq && a == b, "two equal EQUALS rules");
    kani::cover!(a_eq != b_eq && rule_str(&a).as_bytes() == rule_str(&b).as_bytes(), "same string, different kind");
    std::mem::forget(a);
    std::mem::forget(b);
}

#[kani::proof]
#[kani::unwind(5)]
fn c04_path_rule_identity_lengths_differ() {
    let (a, _) = any_path_rule(1);
    let (b, _) = any_path_rule(2);
    assert!(a != b && b != a);
    let (ac, bc) = (a.clone(), b.clone());
    assert!(a == ac && b == bc);
    std::mem::forget((ac, bc));
    kani::cover!(true, "reached");
    std::mem::forget(a);
    std::mem::forget(b);
}

/// method and domain rule identity
#[kani::proof]
#[kani::unwind(6)]
fn c04_method_domain_rule_identity() {
    let pick = |k: u8| -> MethodRule {
        match k % 3 {
            0 => MethodRule::new(None),
            1 => MethodRule::new(Some("GET".to_string())),
            _ => MethodRule::new(Some("POST".to_string())),
        }
    };
    let (k1, k2): (u8, u8) = (kani::any(), kani::any());
    let (m1, m2) = (pick(k1), pick(k2));
    assert!((m1 == m2) == (k1 % 3 == k2 % 3));
    let dom = |k: u8, s: String| -> DomainRule {
        match k % 3 {
            0 => DomainRule::Any,
            1 => DomainRule::Exact(s),
            _ => DomainRule::Wildcard(s),
        }
    };
    let (d1k, d2k): (u8, u8) = (kani::any(), kani::any());
    let (s1, s2) = (any_str(2), any_str(2));
    let same_s = s1.as_bytes() == s2.as_bytes();
    let (d1, d2) = (dom(d1k, s1), dom(d2k, s2));
    let want = d1k % 3 == d2k % 3 && (d1k % 3 == 0 || same_s);
    assert!((d1 == d2) == want && (d2 == d1) == want);
    kani::cover!(d1k % 3 == 2 && want, "equal wildcards");
    std::mem::forget((m1, m2, d1, d2));
}

/// contracts of the match functions the selection relies on
#[kani::proof]
#[kani::unwind(6)]
fn c04_matches_contract() {
    let (r, is_eq) = any_path_rule(2);
    let p: [u8; 3] = kani::any();
    let n: usize = kani::any();
    kani::assume(n <= 3);
    let path = &p[..n];
    let pat = rule_str(&r).as_bytes();
    match r.matches(path) {
        PathRuleResult::Equals => assert!(is_eq && path == pat),
        PathRuleResult::Prefix(k) => {
            assert!(!is_eq && k == pat.len() && k <= path.len() && path[..k] == *pat);
        }
        PathRuleResult::None => {
            if is_eq {
                assert!(path != pat);
            } else {
                assert!(path.len() < pat.len() || path[..pat.len()] != *pat);
            }
        }
        PathRuleResult::Regex => panic!("no regex rule here"),
    }
    let get = Method::new(b"GET");
    let post = Method::new(b"POST");
    assert!(MethodRule::new(None).matches(&get) == MethodRuleResult::All);
    assert!(MethodRule::new(Some("GET".to_string())).matches(&get) == MethodRuleResult::Equals);
    assert!(MethodRule::new(Some("GET".to_string())).matches(&post) == MethodRuleResult::None);
    kani::cover!(!is_eq && n == 3, "prefix match on a longer path");
    std::mem::forget(r);
}

/// DomainRule::matches for Exact / Wildcard: a wildcard covers exactly one non-empty
/// leftmost label
#[kani::proof]
#[kani::unwind(8)]
fn c04_domain_matches_contract() {
    let host: [u8; 5] = kani::any();
    let n: usize = kani::any();
    kani::assume(n <= 5);
    let h = &host[..n];
    let w = DomainRule::Wildcard("*.io".to_string());
    let m = w.matches(h);
    // reference: h = label ++ ".io", label non-empty, no dot in label
    let want = n >= 4
        && h[n - 3..] == *b".io"
        && !h[..n - 3].contains(&b'.');
    assert!(m == want);
    let e = DomainRule::Exact("a.io".to_string());
    assert!(e.matches(h) == (h == b"a.io"));
    assert!(DomainRule::Any.matches(h));
    kani::cover!(m && n == 5, "two-char label");
    std::mem::forget((w, e));
}

// ---------------------------------------------------------------- selection
fn method_rule(k: u8) -> MethodRule {
    match k {
        0 => MethodRule::new(None),
        1 => MethodRule::new(Some("GET".to_string())),
        _ => MethodRule::new(Some("POST".to_string())),
    }
}

/// reference precedence key of one rule for a probe: None = does not match
fn ref_key(r: &PathRule, is_eq: bool, mk: u8, path: &[u8]) -> Option<(u8, usize, u8)> {
    // probe method is GET; rank 1 = method-specific, 0 = any method.
    // (u8, not bool: Kani 0.68 models `bool: PartialOrd` nondeterministically — measured:
    // `true > false` and `false > true` both satisfiable)
    let ms: u8 = match mk {
        0 => 0,
        1 => 1,
        _ => return None,
    };
    let pat = rule_str(r).as_bytes();
    if is_eq {
        if path == pat { Some((2, path.len(), ms)) } else { None }
    } else if path.len() >= pat.len() && path[..pat.len()] == *pat {
        Some((0, pat.len(), ms))
    } else {
        None
    }
}

/// two rules (kind, 1- or 2-byte string, method class all symbolic), probe path of 0..3
/// symbolic bytes, method GET: the chosen route is the one with the greatest documented
/// precedence and is the same for both insertion orders
fn selection_two_rules(n1: usize, n2: usize) {
    let (r1, e1) = any_path_rule(n1);
    let (r2, e2) = any_path_rule(n2);
    let (m1k, m2k): (u8, u8) = (kani::any(), kani::any());
    kani::assume(m1k < 3 && m2k < 3);
    // add_tree_rule never stores two rules with the same (path, method) identity
    kani::assume(!(r1 == r2 && m1k == m2k));
    let p: [u8; 3] = kani::any();
    let n: usize = kani::any();
    kani::assume(n <= 3);
    let path = &p[..n];
    let get = Method::new(b"GET");

    let k1 = ref_key(&r1, e1, m1k, path);
    let k2 = ref_key(&r2, e2, m2k, path);

    let ab = vec![
        (r1.clone(), method_rule(m1k), Route::ClusterId("1".to_string())),
        (r2.clone(), method_rule(m2k), Route::ClusterId("2".to_string())),
    ];
    let ba = vec![
        (r2.clone(), method_rule(m2k), Route::ClusterId("2".to_string())),
        (r1.clone(), method_rule(m1k), Route::ClusterId("1".to_string())),
    ];
    let id = |r: Option<(&PathRule, &Route)>| -> u8 {
        match r {
            None => 0,
            Some((_, Route::ClusterId(s))) => s.as_bytes()[0] - b'0',
            Some(_) => 9,
        }
    };
    let got_ab = id(select_tree_rule(&ab, path, &get));
    let got_ba = id(select_tree_rule(&ba, path, &get));
    let want = match (k1, k2) {
        (None, None) => 0,
        (Some(_), None) => 1,
        (None, Some(_)) => 2,
        (Some(a), Some(b)) => {
            // distinct identities always have distinct keys for Prefix/Equals rules
            assert!(a != b);
            if a > b { 1 } else { 2 }
        }
    };
    assert!(got_ab == want, "selection differs from the documented precedence");
    assert!(got_ba == want, "selection depends on insertion order");
    kani::cover!(k1.is_some() && k2.is_some() && e1 != e2, "EQUALS vs PREFIX both match");
    kani::cover!(k1.is_some() && k2.is_some() && e1 == e2 && !e1, "two prefixes both match");
    kani::cover!(want == 0, "no rule matches");
    std::mem::forget((ab, ba, r1, r2, get));
}

#[kani::proof]
#[kani::unwind(6)]
fn c04_selection_order_independent_2_2() {
    selection_two_rules(2, 2);
}

#[kani::proof]
#[kani::unwind(6)]
fn c04_selection_order_independent_1_2() {
    selection_two_rules(1, 2);
}
