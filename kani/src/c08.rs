//! C08 — the routing table every worker command goes through.
//!
//! Real code driven: `Request::get_destinations` for every `RequestType` variant (default
//! payloads: the table only looks at the variant).  This pins the contract the engine-M
//! obligations on `Server::notify_proxys` assume: listener verbs and worker-level verbs have
//! no proxy destination, frontend verbs go to exactly their proxy, cluster-wide verbs to all.
use sozu_command_lib::proto::command::{request::RequestType, Request};
use sozu_command_lib::request::ProxyDestinations;

fn dest(t: RequestType) -> (bool, bool, bool, bool) {
    let r = Request { request_type: Some(t) };
    let d: ProxyDestinations = r.get_destinations();
    let out = (d.to_http_proxy, d.to_https_proxy, d.to_tcp_proxy, d.to_udp_proxy);
    std::mem::forget(r);
    out
}

const NONE: (bool, bool, bool, bool) = (false, false, false, false);
const ALL: (bool, bool, bool, bool) = (true, true, true, true);
const HTTP: (bool, bool, bool, bool) = (true, false, false, false);
const HTTPS: (bool, bool, bool, bool) = (false, true, false, false);
const TCP: (bool, bool, bool, bool) = (false, false, true, false);
const UDP: (bool, bool, bool, bool) = (false, false, false, true);

/// listener verbs (answered by notify_proxys' special cases) and worker-level verbs
/// (answered by Server::notify) must have NO proxy destination — otherwise they would be
/// answered twice
#[kani::proof]
#[kani::unwind(3)]
fn c08_destinations_listener_and_worker_level_verbs() {
    assert!(dest(RequestType::AddHttpListener(Default::default())) == NONE);
    assert!(dest(RequestType::AddHttpsListener(Default::default())) == NONE);
    assert!(dest(RequestType::AddTcpListener(Default::default())) == NONE);
    assert!(dest(RequestType::AddUdpListener(Default::default())) == NONE);
    assert!(dest(RequestType::UpdateHttpListener(Default::default())) == NONE);
    assert!(dest(RequestType::UpdateHttpsListener(Default::default())) == NONE);
    assert!(dest(RequestType::UpdateTcpListener(Default::default())) == NONE);
    assert!(dest(RequestType::UpdateUdpListener(Default::default())) == NONE);
    assert!(dest(RequestType::RemoveListener(Default::default())) == NONE);
    assert!(dest(RequestType::ActivateListener(Default::default())) == NONE);
    assert!(dest(RequestType::DeactivateListener(Default::default())) == NONE);
    assert!(dest(RequestType::ReturnListenSockets(Default::default())) == NONE);
    // worker-level verbs answered in Server::notify
    assert!(dest(RequestType::ConfigureMetrics(kani::any())) == NONE);
    assert!(dest(RequestType::SetMetricDetail(Default::default())) == NONE);
    assert!(dest(RequestType::QueryMetrics(Default::default())) == NONE);
    assert!(dest(RequestType::Logging(String::new())) == NONE);
    assert!(dest(RequestType::QueryClustersHashes(Default::default())) == NONE);
    assert!(dest(RequestType::QueryClusterById(String::new())) == NONE);
    assert!(dest(RequestType::QueryClustersByDomain(Default::default())) == NONE);
    assert!(dest(RequestType::SetMaxConnectionsPerIp(kani::any())) == NONE);
    assert!(dest(RequestType::QueryMaxConnectionsPerIp(Default::default())) == NONE);
    assert!(dest(Request { request_type: None }.request_type.unwrap_or(RequestType::Logging(String::new()))) == NONE);
    kani::cover!(true, "reached");
}

/// every verb a proxy must see has at least one destination, and frontend / certificate
/// verbs reach exactly their own proxy kind
#[kani::proof]
#[kani::unwind(3)]
fn c08_destinations_proxy_verbs() {
    assert!(dest(RequestType::AddHttpFrontend(Default::default())) == HTTP);
    assert!(dest(RequestType::RemoveHttpFrontend(Default::default())) == HTTP);
    assert!(dest(RequestType::AddHttpsFrontend(Default::default())) == HTTPS);
    assert!(dest(RequestType::RemoveHttpsFrontend(Default::default())) == HTTPS);
    assert!(dest(RequestType::AddCertificate(Default::default())) == HTTPS);
    assert!(dest(RequestType::ReplaceCertificate(Default::default())) == HTTPS);
    assert!(dest(RequestType::RemoveCertificate(Default::default())) == HTTPS);
    assert!(dest(RequestType::QueryCertificatesFromWorkers(Default::default())) == HTTPS);
    assert!(dest(RequestType::AddTcpFrontend(Default::default())) == TCP);
    assert!(dest(RequestType::RemoveTcpFrontend(Default::default())) == TCP);
    assert!(dest(RequestType::AddUdpFrontend(Default::default())) == UDP);
    assert!(dest(RequestType::RemoveUdpFrontend(Default::default())) == UDP);
    assert!(dest(RequestType::AddCluster(Default::default())) == ALL);
    assert!(dest(RequestType::RemoveCluster(String::new())) == ALL);
    assert!(dest(RequestType::AddBackend(Default::default())) == ALL);
    assert!(dest(RequestType::RemoveBackend(Default::default())) == ALL);
    assert!(dest(RequestType::SetHealthCheck(Default::default())) == ALL);
    assert!(dest(RequestType::RemoveHealthCheck(String::new())) == ALL);
    assert!(dest(RequestType::SoftStop(Default::default())) == ALL);
    assert!(dest(RequestType::HardStop(Default::default())) == ALL);
    assert!(dest(RequestType::Status(Default::default())) == ALL);
    kani::cover!(true, "reached");
}
