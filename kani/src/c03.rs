//! C03 — the H2 -> H1 header gate: nothing unsafe to serialise as an HTTP/1.1 header
//! line gets through.
//!
//! Real code driven (through the `verif` wrappers, which only call the private items):
//! `pkawa::{classify_invalid_h2_header, has_invalid_name_byte, is_tchar,
//! is_connection_specific_header, is_invalid_te_value, has_invalid_pseudo_value_byte,
//! set_content_length, strip_port, host_matches_authority, trim_ows}`.
//! The reference predicates below are written from RFC 9113 section 8.2 / RFC 9110
//! section 5; the check is one-sided: sozu may reject more, never less.
use kawa::BodySize;
use sozu_lib::protocol::mux::verif::pkawa as pk;

// ---------------------------------------------------------------- RFC reference
fn ref_tchar(b: u8) -> bool {
    matches!(b,
        b'!' | b'#' | b'$' | b'%' | b'&' | b'\'' | b'*' | b'+' | b'-' | b'.' | b'^' | b'_' | b'`' | b'|' | b'~')
        || b.is_ascii_digit()
        || b.is_ascii_alphabetic()
}
fn lower(b: u8) -> u8 {
    if b.is_ascii_uppercase() { b + 32 } else { b }
}
fn eq_nocase(a: &[u8], b: &[u8]) -> bool {
    if a.len() != b.len() {
        return false;
    }
    let mut i = 0;
    while i < a.len() {
        if lower(a[i]) != lower(b[i]) {
            return false;
        }
        i += 1;
    }
    true
}
/// value bytes that must never reach an H1 header line: NUL, CR, LF, other CTLs except
/// HTAB, and DEL
fn ref_bad_value_byte(b: u8) -> bool {
    (b < 0x20 && b != 0x09) || b == 0x7F
}

/// every header name of 0..4 bytes, value of 0..3 bytes
#[kani::proof]
#[kani::unwind(6)]
fn c03_header_gate_vs_rfc() {
    let nb: [u8; 4] = kani::any();
    let vb: [u8; 3] = kani::any();
    let nl: usize = kani::any();
    let vl: usize = kani::any();
    kani::assume(nl <= 4 && vl <= 3);
    let (name, value) = (&nb[..nl], &vb[..vl]);
    let rejected = pk::classify_invalid_h2_header(name, value).is_some();

    // reference: unsafe to forward
    let mut unsafe_name = nl == 0;
    let pseudo = nl > 0 && name[0] == b':';
    if !pseudo {
        let mut i = 0;
        while i < nl {
            if !ref_tchar(name[i]) || name[i].is_ascii_uppercase() {
                unsafe_name = true;
            }
            i += 1;
        }
    }
    let mut unsafe_value = false;
    let mut i = 0;
    while i < vl {
        if ref_bad_value_byte(value[i]) {
            unsafe_value = true;
        }
        i += 1;
    }
    let te_bad = eq_nocase(name, b"te") && !eq_nocase(value, b"trailers");
    if unsafe_name || unsafe_value || te_bad {
        assert!(rejected, "a header that is unsafe to serialise as HTTP/1.1 passed the gate");
    }
    // and the gate is not vacuous: a plain lowercase token with a clean value passes
    if !unsafe_name && !unsafe_value && !te_bad && !pseudo && nl <= 3 {
        // (names of <= 3 bytes cannot be one of the connection-specific names)
        assert!(!rejected || eq_nocase(name, b"te"), "clean short header rejected");
    }
    kani::cover!(rejected && !unsafe_name && unsafe_value, "CR/LF/NUL in value");
    kani::cover!(!rejected && nl == 4 && vl == 3, "accepted header");
    kani::cover!(te_bad, "te other than trailers");
}

/// the connection-specific names of RFC 9113 section 8.2.2 in every letter case
#[kani::proof]
#[kani::unwind(19)]
fn c03_connection_specific_any_case() {
    // each candidate with an arbitrary per-letter case mask
    let mask: u32 = kani::any();
    let names: [&[u8]; 5] = [b"connection", b"proxy-connection", b"transfer-encoding", b"upgrade", b"keep-alive"];
    let pick: usize = kani::any();
    kani::assume(pick < 5);
    let src = names[pick];
    let mut buf = [0u8; 17];
    let mut i = 0;
    while i < src.len() {
        let c = src[i];
        buf[i] = if c.is_ascii_lowercase() && (mask >> i) & 1 == 1 { c - 32 } else { c };
        i += 1;
    }
    let name = &buf[..src.len()];
    assert!(pk::is_connection_specific_header(name));
    assert!(pk::classify_invalid_h2_header(name, b"x").is_some(), "connection-specific header passed the gate");
    // one byte shorter / longer is a different (legal) header
    assert!(!pk::is_connection_specific_header(&buf[..src.len() - 1]));
    kani::cover!(mask != 0 && pick == 2, "mixed-case transfer-encoding");
}

/// name byte predicate == RFC tchar minus uppercase, for all 256 bytes
#[kani::proof]
#[kani::unwind(3)]
fn c03_name_byte_predicate_exact() {
    let b: u8 = kani::any();
    assert!(pk::is_tchar(b) == ref_tchar(b));
    let one = [b];
    assert!(pk::has_invalid_name_byte(&one) == (!ref_tchar(b) || b.is_ascii_uppercase()));
    // pseudo-header values (they land in the H1 request line): no CTL at all, no DEL
    assert!(pk::has_invalid_pseudo_value_byte(&one) == (b < 0x20 || b == 0x7F));
    kani::cover!(b == b':', "colon is not a token char");
}

/// pseudo-header value gate over 0..4 bytes
#[kani::proof]
#[kani::unwind(6)]
fn c03_pseudo_value_gate() {
    let vb: [u8; 4] = kani::any();
    let vl: usize = kani::any();
    kani::assume(vl <= 4);
    let v = &vb[..vl];
    let got = pk::has_invalid_pseudo_value_byte(v);
    let mut want = false;
    let mut i = 0;
    while i < vl {
        if v[i] < 0x20 || v[i] == 0x7F {
            want = true;
        }
        i += 1;
    }
    assert!(got == want);
    kani::cover!(want && vl == 4 && v[3] == b'\n', "LF at the end");
}

/// Content-Length bookkeeping: a second, different length is refused and nothing changes
#[kani::proof]
#[kani::unwind(3)]
fn c03_content_length_conflict() {
    let a: usize = kani::any();
    let b: usize = kani::any();
    let mut bs = match kani::any::<u8>() % 3 {
        0 => BodySize::Empty,
        1 => BodySize::Chunked,
        _ => BodySize::Length(a),
    };
    let before = bs;
    let ok = pk::set_content_length(&mut bs, b);
    match before {
        BodySize::Length(x) if x != b => {
            assert!(!ok, "conflicting Content-Length accepted");
            assert!(bs == before, "rejected Content-Length altered the framing");
        }
        _ => {
            assert!(ok);
            assert!(bs == BodySize::Length(b));
        }
    }
    kani::cover!(!ok, "conflict");
    kani::cover!(ok && before == BodySize::Length(b), "identical repeat accepted");
}

/// host vs :authority — accepted as matching only when they name the same origin
#[kani::proof]
#[kani::unwind(8)]
fn c03_host_authority_same_origin() {
    let hb: [u8; 5] = kani::any();
    let ab: [u8; 5] = kani::any();
    let hl: usize = kani::any();
    let al: usize = kani::any();
    kani::assume(hl <= 5 && al <= 5);
    let (h, a) = (&hb[..hl], &ab[..al]);
    // IPv6 literals take another branch; kept out of this bound
    kani::assume(!h.contains(&b'[') && !a.contains(&b'['));
    let m = pk::host_matches_authority(h, a);
    let hs = pk::strip_port(h);
    let as_ = pk::strip_port(a);
    // strip_port returns a prefix, and strips only ":digits"
    assert!(hs.len() <= hl && hs == &h[..hs.len()]);
    if hs.len() < hl {
        assert!(h[hs.len()] == b':' && hl - hs.len() >= 2);
        let mut i = hs.len() + 1;
        while i < hl {
            assert!(h[i].is_ascii_digit());
            i += 1;
        }
    }
    if m {
        // same host part, case-insensitively
        assert!(eq_nocase(hs, as_), "host accepted although it names another host than :authority");
        // and never two different explicit ports
        if hs.len() < hl && as_.len() < al {
            assert!(eq_nocase(h, a), "different explicit ports accepted as the same origin");
        }
    }
    assert!(pk::host_matches_authority(h, h));
    kani::cover!(m && hl != al, "match with a port on one side only");
    kani::cover!(!m && eq_nocase(hs, as_), "same host, different ports");
}

/// OWS trimming returns the inner slice without SP/HTAB at either end and drops nothing else
#[kani::proof]
#[kani::unwind(8)]
fn c03_trim_ows_exact() {
    let b: [u8; 5] = kani::any();
    let n: usize = kani::any();
    kani::assume(n <= 5);
    let s = &b[..n];
    let t = pk::trim_ows(s);
    let ws = |c: u8| c == b' ' || c == b'\t';
    if !t.is_empty() {
        assert!(!ws(t[0]) && !ws(t[t.len() - 1]));
    }
    // t is a sub-slice of s; everything outside it is whitespace
    let off = t.as_ptr() as usize - s.as_ptr() as usize;
    assert!(off + t.len() <= n);
    let mut i = 0;
    while i < n {
        if i < off || i >= off + t.len() {
            assert!(ws(s[i]), "non-whitespace byte trimmed away");
        }
        i += 1;
    }
    kani::cover!(t.len() == 3 && n == 5, "trimmed both ends");
}
