//! Out-of-tree Kani harnesses over sozu's real code (path deps on /repo).
#![allow(unused, clippy::all)]

#[cfg(kani)]
mod c11;
#[cfg(kani)]
mod c18;
#[cfg(kani)]
mod c15;
#[cfg(kani)]
mod c04;
#[cfg(kani)]
mod c14;
#[cfg(kani)]
mod c03;
#[cfg(kani)]
mod c06;
#[cfg(kani)]
mod c19;
#[cfg(kani)]
mod c08;
