//! C15 — the stateless HTTP/2 frame decoder is total and exact; flood detector step.
//!
//! Real code driven: `parser::{frame_header, frame_body}` (nom) for every frame type,
//! `serializer::gen_*` -> parser inverses, `H2FloodDetector::{check_flood,
//! record_rst_lifetime, record_rst_emitted}`, `h2::error_nom_to_h2`.
use sozu_lib::protocol::mux::parser::{
    self, frame_body, frame_header, Frame, FrameHeader, FrameType, H2Error, ParserError,
    ParserErrorKind, PriorityPart, FLAG_ACK, FLAG_END_HEADERS, FLAG_END_STREAM, FLAG_PADDED,
    FLAG_PRIORITY, STREAM_ID_MASK,
};
use sozu_lib::protocol::mux::verif::h2 as vh2;
use sozu_lib::protocol::mux::verif::serializer as ser;
use sozu_lib::protocol::mux::verif::{H2FloodConfig, H2FloodDetector};

fn h2err(e: &nom::Err<ParserError>) -> Option<H2Error> {
    match e {
        nom::Err::Error(ParserError { kind: ParserErrorKind::H2(x), .. })
        | nom::Err::Failure(ParserError { kind: ParserErrorKind::H2(x), .. }) => Some(*x),
        _ => None,
    }
}

fn be24(b: &[u8]) -> u32 {
    ((b[0] as u32) << 16) | ((b[1] as u32) << 8) | b[2] as u32
}
fn be32(b: &[u8]) -> u32 {
    u32::from_be_bytes([b[0], b[1], b[2], b[3]])
}

/// frame header: every 0..=12-byte input, every max_frame_size
#[kani::proof]
#[kani::unwind(6)]
fn c15_frame_header_total() {
    let buf: [u8; 12] = kani::any();
    let n: usize = kani::any();
    kani::assume(n <= 12);
    let max: u32 = kani::any();
    match frame_header(&buf[..n], max) {
        Ok((rest, h)) => {
            assert!(n >= 9 && rest.len() == n - 9, "header must consume exactly 9 bytes");
            assert!(h.payload_len == be24(&buf[0..3]) && h.payload_len <= max);
            assert!(h.flags == buf[4]);
            assert!(h.stream_id == be32(&buf[5..9]) & STREAM_ID_MASK);
            let t = buf[3];
            let sid0 = h.stream_id == 0;
            // RFC 9113 section 6: stream-id validity per type
            match t {
                0 | 1 | 2 | 3 | 5 | 9 => assert!(!sid0),
                4 | 6 | 7 | 0x10 => assert!(sid0),
                _ => {}
            }
            match h.frame_type {
                FrameType::Unknown(x) => assert!(x == t && (t > 9 && t != 0x10)),
                _ => assert!(ser::serialize_frame_type(&h.frame_type) == t || t == 0x10),
            }
            kani::cover!(t == 8 && sid0, "window update on connection");
            kani::cover!(t > 0x10, "unknown type accepted");
        }
        Err(e) => {
            if n >= 9 {
                let plen = be24(&buf[0..3]);
                match h2err(&e) {
                    Some(H2Error::FrameSizeError) => assert!(plen > max),
                    Some(H2Error::ProtocolError) => {
                        assert!(plen <= max);
                        let sid0 = be32(&buf[5..9]) & STREAM_ID_MASK == 0;
                        match buf[3] {
                            0 | 1 | 2 | 3 | 5 | 9 => assert!(sid0),
                            4 | 6 | 7 | 0x10 => assert!(!sid0),
                            _ => panic!("stream id error on a type without constraint"),
                        }
                    }
                    _ => panic!("complete 9-byte header rejected with a non-H2 error"),
                }
                kani::cover!(h2err(&e) == Some(H2Error::FrameSizeError), "oversize");
                kani::cover!(h2err(&e) == Some(H2Error::ProtocolError), "bad stream id");
            } else {
                // truncated header: either a plain parse error, or (once the 3 length bytes
                // are in) the size bound is already enforced
                match h2err(&e) {
                    None => {}
                    Some(H2Error::FrameSizeError) => assert!(n >= 3 && be24(&buf[0..3]) > max),
                    Some(_) => panic!("truncated header produced a wrong H2 error class"),
                }
                kani::cover!(n == 8, "short header");
            }
        }
    }
}

/// Build a header for type `t` with symbolic flags / stream id / payload_len, then
/// decode a body of `n <= N` symbolic bytes.  Returns what the per-type harness needs.
struct Dec<const N: usize> {
    buf: [u8; N],
    n: usize,
    h: FrameHeader,
}
fn any_dec<const N: usize>(frame_type: FrameType) -> Dec<N> {
    let buf: [u8; N] = kani::any();
    let n: usize = kani::any();
    kani::assume(n <= N);
    let h = FrameHeader {
        payload_len: kani::any(),
        frame_type,
        flags: kani::any(),
        stream_id: kani::any::<u32>() & STREAM_ID_MASK,
    };
    Dec { buf, n, h }
}

/// generic post-conditions: exact consumption on Ok; on Err with the whole payload
/// present the error is an H2 error class (never a bare nom error)
fn check_exact<'a>(
    d_n: usize,
    plen: u32,
    r: &Result<(&'a [u8], Frame), nom::Err<ParserError<'a>>>,
) -> bool {
    match r {
        Ok((rest, _)) => {
            assert!(plen as usize <= d_n, "Ok although payload bytes are missing");
            assert!(d_n - rest.len() == plen as usize, "body must consume exactly payload_len");
            true
        }
        Err(_) => false,
    }
}

#[kani::proof]
#[kani::unwind(6)]
fn c15_body_data() {
    let d = any_dec::<20>(FrameType::Data);
    let input = &d.buf[..d.n];
    let r = frame_body(input, &d.h);
    let plen = d.h.payload_len as usize;
    let padded = d.h.flags & FLAG_PADDED != 0;
    if check_exact(d.n, d.h.payload_len, &r) {
        if let Ok((_, Frame::Data(data))) = &r {
            let pad = if padded { d.buf[0] as usize } else { 0 };
            let skip = if padded { 1 } else { 0 };
            assert!(!padded || plen >= 1);
            assert!(pad + skip <= plen, "padding larger than payload accepted");
            // the body slice is exactly payload[skip .. plen - pad]: no padding leaks, no
            // body byte dropped
            assert!(data.payload.start as usize == skip);
            assert!(data.payload.len as usize == plen - skip - pad);
            assert!(data.end_stream == (d.h.flags & FLAG_END_STREAM != 0));
            assert!(data.stream_id == d.h.stream_id);
            kani::cover!(padded && pad > 0 && data.payload.len > 0, "padded data");
            kani::cover!(!padded && plen == 20, "full buffer");
        } else {
            panic!("DATA header decoded as another frame");
        }
    } else if let Err(e) = &r {
        if plen <= d.n {
            // complete payload: the only legal rejection is bad padding, reported to the
            // connection as PROTOCOL_ERROR (class after sozu's nom->H2 mapping)
            assert!(vh2::error_nom_to_h2(e.clone()) == H2Error::ProtocolError);
            assert!(padded && (plen == 0 || d.buf[0] as usize > plen - 1));
            kani::cover!(plen > 0, "pad too long");
        }
    }
}

#[kani::proof]
#[kani::unwind(6)]
fn c15_body_headers() {
    let d = any_dec::<20>(FrameType::Headers);
    let input = &d.buf[..d.n];
    let r = frame_body(input, &d.h);
    let plen = d.h.payload_len as usize;
    let padded = d.h.flags & FLAG_PADDED != 0;
    let prio = d.h.flags & FLAG_PRIORITY != 0;
    if check_exact(d.n, d.h.payload_len, &r) {
        if let Ok((_, Frame::Headers(hd))) = &r {
            let pad = if padded { d.buf[0] as usize } else { 0 };
            let skip = (if padded { 1 } else { 0 }) + (if prio { 5 } else { 0 });
            assert!(pad + skip <= plen);
            assert!(hd.header_block_fragment.start as usize == skip);
            assert!(hd.header_block_fragment.len as usize == plen - skip - pad);
            assert!(hd.end_stream == (d.h.flags & FLAG_END_STREAM != 0));
            assert!(hd.end_headers == (d.h.flags & FLAG_END_HEADERS != 0));
            assert!(hd.priority.is_some() == prio);
            if let Some(PriorityPart::Rfc7540 { stream_dependency, weight }) = &hd.priority {
                let o = if padded { 1 } else { 0 };
                assert!(stream_dependency.stream_id == be32(&d.buf[o..o + 4]) & STREAM_ID_MASK);
                assert!(stream_dependency.exclusive == (d.buf[o] & 0x80 != 0));
                assert!(*weight == d.buf[o + 4]);
            }
            kani::cover!(padded && prio && pad > 0, "padded + priority");
        } else {
            panic!("HEADERS header decoded as another frame");
        }
    } else if let Err(e) = &r {
        if plen <= d.n {
            // complete payload rejected: padding/priority do not fit
            let pad = if padded && plen > 0 { d.buf[0] as usize } else { 0 };
            let skip = (if padded { 1 } else { 0 }) + (if prio { 5 } else { 0 });
            assert!(pad + skip > plen);
            kani::cover!(prio && !padded, "priority does not fit");
        }
    }
}

/// fixed-size frames: PRIORITY(5) RST_STREAM(4) PING(8) WINDOW_UPDATE(4), GOAWAY(>=8)
#[kani::proof]
#[kani::unwind(10)]
fn c15_body_fixed_size_frames() {
    let which: u8 = kani::any();
    kani::assume(which < 5);
    let (ft, want): (FrameType, u32) = match which {
        0 => (FrameType::Priority, 5),
        1 => (FrameType::RstStream, 4),
        2 => (FrameType::Ping, 8),
        3 => (FrameType::WindowUpdate, 4),
        _ => (FrameType::GoAway, 8),
    };
    let d = any_dec::<16>(ft);
    let input = &d.buf[..d.n];
    let r = frame_body(input, &d.h);
    let plen = d.h.payload_len;
    let size_ok = if which == 4 { plen >= want } else { plen == want };
    if check_exact(d.n, plen, &r) {
        assert!(size_ok, "wrong-size fixed frame accepted");
        match &r {
            Ok((_, Frame::Priority(p))) => {
                assert!(which == 0 && p.stream_id == d.h.stream_id);
            }
            Ok((_, Frame::RstStream(x))) => {
                assert!(which == 1 && x.error_code == be32(&d.buf[0..4]) && x.stream_id == d.h.stream_id);
            }
            Ok((_, Frame::Ping(p))) => {
                assert!(which == 2 && p.payload == d.buf[0..8] && p.ack == (d.h.flags & FLAG_ACK != 0));
            }
            Ok((_, Frame::WindowUpdate(w))) => {
                assert!(which == 3 && w.increment == be32(&d.buf[0..4]) & STREAM_ID_MASK);
                assert!(w.increment <= 0x7FFF_FFFF && w.stream_id == d.h.stream_id);
            }
            Ok((_, Frame::GoAway(g))) => {
                assert!(which == 4);
                assert!(g.last_stream_id == be32(&d.buf[0..4]) & STREAM_ID_MASK);
                assert!(g.error_code == be32(&d.buf[4..8]));
                assert!(g.additional_debug_data.len == plen - 8);
            }
            _ => panic!("decoded as another frame type"),
        }
        kani::cover!(which == 4 && plen > 8, "goaway with debug data");
        kani::cover!(which == 2, "ping");
    } else if let Err(e) = &r {
        if !size_ok {
            assert!(h2err(e) == Some(H2Error::FrameSizeError), "size violation must be FRAME_SIZE_ERROR");
            kani::cover!(which == 3, "bad window update size");
        } else {
            assert!(plen as usize > d.n, "well-formed fixed-size frame rejected");
        }
    }
}

/// SETTINGS with 0..=3 entries present (payload length concrete per call: the entry
/// vector is a heap allocation), every flags / entry value
fn settings_case(plen: u32) {
    let mut d = any_dec::<20>(FrameType::Settings);
    d.h.payload_len = plen;
    d.h.stream_id = 0;
    let input = &d.buf[..d.n];
    let r = frame_body(input, &d.h);
    let ack = d.h.flags & FLAG_ACK != 0;
    match r {
        Ok((rest, Frame::Settings(s))) => {
            assert!(plen as usize <= d.n && d.n - rest.len() == plen as usize);
            assert!(plen % 6 == 0 && !(ack && plen != 0));
            assert!(s.settings.len() == (plen / 6) as usize);
            assert!(s.ack == ack);
            if plen >= 12 {
                assert!(s.settings[1].identifier == u16::from_be_bytes([d.buf[6], d.buf[7]]));
                assert!(s.settings[1].value == be32(&d.buf[8..12]));
            }
            std::mem::forget(s);
        }
        Ok(_) => panic!("SETTINGS decoded as another frame"),
        Err(e) => {
            if plen % 6 != 0 || (ack && plen != 0) {
                assert!(h2err(&e) == Some(H2Error::FrameSizeError));
            } else {
                assert!(plen as usize > d.n, "well-formed SETTINGS rejected");
            }
        }
    }
}

#[kani::proof]
#[kani::unwind(6)]
fn c15_body_settings() {
    settings_case(0);
    settings_case(6);
    settings_case(12);
    settings_case(7);
    settings_case(18);
    kani::cover!(true, "reached");
}

/// more than 64 entries is refused before any allocation
#[kani::proof]
#[kani::unwind(4)]
fn c15_body_settings_cap() {
    let mut d = any_dec::<4>(FrameType::Settings);
    kani::assume(d.h.payload_len / 6 > 64);
    let input = &d.buf[..d.n];
    match frame_body(input, &d.h) {
        Ok(_) => panic!("oversized SETTINGS accepted"),
        Err(e) => assert!(h2err(&e) == Some(H2Error::FrameSizeError)),
    }
    kani::cover!(true, "reached");
}

/// PUSH_PROMISE is always a connection error; CONTINUATION / unknown consume exactly
#[kani::proof]
#[kani::unwind(6)]
fn c15_body_push_continuation_unknown() {
    let which: u8 = kani::any();
    kani::assume(which < 3);
    let t: u8 = kani::any();
    kani::assume(t > 0x10);
    let ft = match which {
        0 => FrameType::PushPromise,
        1 => FrameType::Continuation,
        _ => FrameType::Unknown(t),
    };
    let d = any_dec::<12>(ft);
    let input = &d.buf[..d.n];
    let r = frame_body(input, &d.h);
    if check_exact(d.n, d.h.payload_len, &r) {
        assert!(which != 0, "PUSH_PROMISE accepted");
        match &r {
            Ok((_, Frame::Continuation(_))) => assert!(which == 1),
            Ok((_, Frame::Unknown(x))) => assert!(which == 2 && *x == t),
            _ => panic!("wrong frame"),
        }
        kani::cover!(which == 2, "unknown discarded");
    } else if let Err(e) = &r {
        if d.h.payload_len as usize <= d.n {
            assert!(which == 0 && h2err(e) == Some(H2Error::ProtocolError));
            kani::cover!(true, "push promise refused");
        }
    }
}

/// PRIORITY_UPDATE: payload length concrete (value is copied to a Vec)
#[kani::proof]
#[kani::unwind(6)]
fn c15_body_priority_update() {
    let mut d = any_dec::<12>(FrameType::PriorityUpdate);
    let pick: u8 = kani::any();
    d.h.payload_len = match pick % 4 {
        0 => 3,
        1 => 4,
        2 => 7,
        _ => 4 + 1025,
    };
    d.h.stream_id = 0;
    let plen = d.h.payload_len;
    let input = &d.buf[..d.n];
    match frame_body(input, &d.h) {
        Ok((rest, Frame::PriorityUpdate(p))) => {
            assert!(plen >= 4 && plen <= 4 + 1024 && plen as usize <= d.n);
            assert!(d.n - rest.len() == plen as usize);
            assert!(p.prioritized_stream_id == be32(&d.buf[0..4]) & STREAM_ID_MASK);
            assert!(p.priority_field_value.len() == plen as usize - 4);
            kani::cover!(plen == 7, "with value");
            std::mem::forget(p);
        }
        Ok(_) => panic!("wrong frame"),
        Err(e) => {
            if plen < 4 {
                assert!(h2err(&e) == Some(H2Error::FrameSizeError));
            } else if plen > 4 + 1024 {
                assert!(h2err(&e) == Some(H2Error::ProtocolError));
            } else {
                assert!(plen as usize > d.n);
            }
        }
    }
}

/// what sozu itself emits is well-formed: gen_* output parses back to the same fields
#[kani::proof]
#[kani::unwind(10)]
fn c15_inverse_rst_stream() {
    let sid: u32 = kani::any();
    let code: u8 = kani::any();
    kani::assume(code <= 0xd);
    let err = H2Error::try_from(code as u32).unwrap();
    let mut buf = [0u8; 13];
    let n = ser::gen_rst_stream(&mut buf, sid, err).unwrap().1;
    assert!(n == 13);
    kani::assume(sid & STREAM_ID_MASK != 0);
    let (rest, h) = frame_header(&buf[..n], 16384).unwrap();
    assert!(h.stream_id == sid & STREAM_ID_MASK && h.payload_len == 4);
    match frame_body(rest, &h) {
        Ok((r2, Frame::RstStream(x))) => assert!(r2.is_empty() && x.error_code == code as u32),
        _ => panic!("own RST_STREAM does not parse"),
    }
    kani::cover!(sid > STREAM_ID_MASK, "reserved bit set by caller is masked");
}

#[kani::proof]
#[kani::unwind(10)]
fn c15_inverse_window_update() {
    let sid: u32 = kani::any();
    let val: u32 = kani::any();
    let mut buf = [0u8; 13];
    let n = ser::gen_window_update(&mut buf, sid, val).unwrap().1;
    assert!(n == 13);
    let (rest, h) = frame_header(&buf[..n], 16384).unwrap();
    match frame_body(rest, &h) {
        Ok((r2, Frame::WindowUpdate(w))) => {
            assert!(r2.is_empty() && w.increment == val & STREAM_ID_MASK);
            assert!(w.stream_id == sid & STREAM_ID_MASK);
        }
        _ => panic!("own WINDOW_UPDATE does not parse"),
    }
    kani::cover!(val > STREAM_ID_MASK, "reserved bit in increment masked");
}

#[kani::proof]
#[kani::unwind(10)]
fn c15_inverse_goaway_ping() {
    let sid: u32 = kani::any();
    let code: u8 = kani::any();
    kani::assume(code <= 0xd);
    let err = H2Error::try_from(code as u32).unwrap();
    let mut buf = [0u8; 17];
    let n = ser::gen_goaway(&mut buf, sid, err).unwrap().1;
    assert!(n == 17);
    let (rest, h) = frame_header(&buf[..n], 16384).unwrap();
    assert!(h.stream_id == 0);
    match frame_body(rest, &h) {
        Ok((r2, Frame::GoAway(g))) => {
            assert!(r2.is_empty() && g.last_stream_id == sid & STREAM_ID_MASK);
            assert!(g.error_code == code as u32 && g.additional_debug_data.len == 0);
        }
        _ => panic!("own GOAWAY does not parse"),
    }
    let payload: [u8; 8] = kani::any();
    let mut buf = [0u8; 17];
    let n = ser::gen_ping_acknowledgement(&mut buf, &payload).unwrap().1;
    assert!(n == 17);
    let (rest, h) = frame_header(&buf[..n], 16384).unwrap();
    match frame_body(rest, &h) {
        Ok((r2, Frame::Ping(p))) => assert!(r2.is_empty() && p.ack && p.payload == payload),
        _ => panic!("own PING ack does not parse"),
    }
    kani::cover!(sid > STREAM_ID_MASK, "reserved bit set by caller is masked");
}

/// nom error -> H2 error class; code <-> enum bijection on the 14 RFC codes
#[kani::proof]
#[kani::unwind(4)]
fn c15_error_class_mapping() {
    let code: u32 = kani::any();
    match H2Error::try_from(code) {
        Ok(e) => assert!(code <= 0xd && e as u32 == code),
        Err(c) => assert!(code > 0xd && c == code),
    }
    let buf = [0u8; 1];
    let c8: u8 = kani::any();
    kani::assume(c8 <= 0xd);
    let e = H2Error::try_from(c8 as u32).unwrap();
    let failure: bool = kani::any();
    let pe = ParserError::new_h2(&buf, e);
    let ne = if failure { nom::Err::Failure(pe) } else { nom::Err::Error(pe) };
    assert!(vh2::error_nom_to_h2(ne) == e);
    let ne2 = nom::Err::Error(ParserError::new(&buf, ParserErrorKind::Nom(nom::error::ErrorKind::Eof)));
    assert!(vh2::error_nom_to_h2(ne2) == H2Error::ProtocolError);
    assert!(vh2::error_nom_to_h2(nom::Err::Incomplete(nom::Needed::Unknown)) == H2Error::ProtocolError);
    kani::cover!(failure && c8 == 0xb, "enhance your calm failure");
}

// ---------------------------------------------------------------- flood detector
static mut NOW_CALLED: bool = false;
static mut ELAPSED_SECS: u64 = 0;
fn stub_now() -> std::time::Instant {
    unsafe {
        NOW_CALLED = true;
        std::mem::zeroed()
    }
}
fn stub_elapsed(_i: &std::time::Instant) -> std::time::Duration {
    unsafe {
        if NOW_CALLED {
            std::time::Duration::from_secs(0)
        } else {
            std::time::Duration::from_secs(ELAPSED_SECS)
        }
    }
}

fn any_counters() -> vh2::FloodCounters {
    vh2::FloodCounters {
        rst_stream_count: kani::any(),
        total_rst_received_lifetime: kani::any(),
        total_abusive_rst_received_lifetime: kani::any(),
        total_rst_streams_emitted_lifetime: kani::any(),
        ping_count: kani::any(),
        total_ping_received_lifetime: kani::any(),
        settings_count: kani::any(),
        total_settings_received_lifetime: kani::any(),
        empty_data_count: kani::any(),
        window_update_stream0_count: kani::any(),
        continuation_count: kani::any(),
        accumulated_header_size: kani::any(),
        glitch_count: kani::any(),
    }
}
fn any_config() -> H2FloodConfig {
    H2FloodConfig::new(
        kani::any(), kani::any(), kani::any(), kani::any(), kani::any(), kani::any(), kani::any(),
        kani::any(), kani::any(), kani::any(), kani::any(), kani::any(), kani::any(),
    )
}

/// one check_flood step from an arbitrary counter state with an arbitrary clock
#[kani::proof]
#[kani::unwind(4)]
#[kani::stub(std::time::Instant::now, stub_now)]
#[kani::stub(std::time::Instant::elapsed, stub_elapsed)]
fn c15_flood_check_step() {
    unsafe {
        NOW_CALLED = false;
        ELAPSED_SECS = kani::any();
    }
    let c0 = any_counters();
    let cfg = any_config();
    let mut d = vh2::flood_detector(c0, unsafe { std::mem::zeroed() }, cfg);
    let v = d.check_flood();
    let c1 = vh2::flood_counters(&d);
    let expired = unsafe { ELAPSED_SECS } >= 1;
    // window counters: halved on expiry, never increased; lifetime counters never decay
    let half = |x: u32| if expired { x / 2 } else { x };
    assert!(c1.rst_stream_count == half(c0.rst_stream_count));
    assert!(c1.ping_count == half(c0.ping_count));
    assert!(c1.settings_count == half(c0.settings_count));
    assert!(c1.empty_data_count == half(c0.empty_data_count));
    assert!(c1.window_update_stream0_count == half(c0.window_update_stream0_count));
    assert!(c1.glitch_count == half(c0.glitch_count));
    assert!(c1.total_rst_received_lifetime == c0.total_rst_received_lifetime);
    assert!(c1.total_abusive_rst_received_lifetime == c0.total_abusive_rst_received_lifetime);
    assert!(c1.total_rst_streams_emitted_lifetime == c0.total_rst_streams_emitted_lifetime);
    assert!(c1.total_ping_received_lifetime == c0.total_ping_received_lifetime);
    assert!(c1.total_settings_received_lifetime == c0.total_settings_received_lifetime);
    assert!(c1.continuation_count == c0.continuation_count);
    assert!(c1.accumulated_header_size == c0.accumulated_header_size);
    // violation <=> some counter (after decay) is above its threshold
    let over = c1.rst_stream_count > cfg.max_rst_stream_per_window
        || c1.ping_count > cfg.max_ping_per_window
        || c1.total_ping_received_lifetime > vh2::DEFAULT_MAX_PING_LIFETIME
        || c1.settings_count > cfg.max_settings_per_window
        || c1.total_settings_received_lifetime > vh2::DEFAULT_MAX_SETTINGS_LIFETIME
        || c1.empty_data_count > cfg.max_empty_data_per_window
        || c1.continuation_count > cfg.max_continuation_frames
        || c1.window_update_stream0_count > cfg.max_window_update_stream0_per_window
        || c1.accumulated_header_size > cfg.max_header_list_size
        || c1.glitch_count > cfg.max_glitch_count;
    assert!(v.is_some() == over, "flood verdict must be exactly 'some counter above threshold'");
    if let Some(v) = &v {
        assert!(v.error == H2Error::EnhanceYourCalm && v.count > v.threshold);
    }
    kani::cover!(v.is_some() && expired, "violation after decay");
    kani::cover!(v.is_none() && c0.ping_count > 0, "under threshold");
    std::mem::forget(v);
}

/// lifetime RST counters: saturating, monotone, violation exactly above the caps
#[kani::proof]
#[kani::unwind(4)]
#[kani::stub(std::time::Instant::now, stub_now)]
#[kani::stub(std::time::Instant::elapsed, stub_elapsed)]
fn c15_flood_rst_lifetime_step() {
    let mut c0 = any_counters();
    // representation invariant the detector maintains: abusive <= total
    kani::assume(c0.total_abusive_rst_received_lifetime <= c0.total_rst_received_lifetime);
    // reachable states only: every counter trips its (u64) cap and the connection is torn
    // down long before saturation; at u64::MAX sozu's own monotonicity debug_assert
    // ("advances iff pre-response-start") is knowingly false
    kani::assume(c0.total_rst_received_lifetime < u64::MAX);
    let cfg = any_config();
    let mut d = vh2::flood_detector(c0, unsafe { std::mem::zeroed() }, cfg);
    let started: bool = kani::any();
    let emitted: bool = kani::any();
    let v = if emitted { d.record_rst_emitted() } else { d.record_rst_lifetime(started) };
    let c1 = vh2::flood_counters(&d);
    if emitted {
        assert!(c1.total_rst_streams_emitted_lifetime == c0.total_rst_streams_emitted_lifetime.saturating_add(1));
        assert!(c1.total_rst_received_lifetime == c0.total_rst_received_lifetime);
        assert!(v.is_some() == (c1.total_rst_streams_emitted_lifetime > cfg.max_rst_stream_emitted_lifetime));
    } else {
        assert!(c1.total_rst_received_lifetime == c0.total_rst_received_lifetime.saturating_add(1));
        let ab = if started { c0.total_abusive_rst_received_lifetime } else { c0.total_abusive_rst_received_lifetime.saturating_add(1) };
        assert!(c1.total_abusive_rst_received_lifetime == ab);
        assert!(v.is_some() == (c1.total_rst_received_lifetime > cfg.max_rst_stream_lifetime
            || c1.total_abusive_rst_received_lifetime > cfg.max_rst_stream_abusive_lifetime));
        assert!(c1.total_rst_streams_emitted_lifetime == c0.total_rst_streams_emitted_lifetime);
    }
    assert!(c1.rst_stream_count == c0.rst_stream_count && c1.ping_count == c0.ping_count);
    kani::cover!(v.is_some() && !emitted && !started, "rapid reset tripped");
    kani::cover!(emitted && v.is_none(), "emitted below cap");
    std::mem::forget(v);
}
