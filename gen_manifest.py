#!/usr/bin/env python3
"""Regenerates MANIFEST.json from vlib/registry.py + the not-applicable table below."""
import json, os, sys
sys.path.insert(0, os.path.dirname(os.path.abspath(__file__)))
from vlib import registry

NOT_APPLICABLE = {
 "C05": "Round-trips are serde_json/prost encode-decode of large string-keyed container state (HashMap/BTreeMap of ~60-field structs, x509 fingerprints); no bounded integer/byte kernel carries the property and CBMC cannot hold those decoders over symbolic input (measured: ConfigState::dispatch as entry point exhausts goto-instrument at 12 GB).",
 "C10": "fd passing (sendmsg/SCM_RIGHTS), process replacement and request draining are OS-level schedules across processes; nothing in the anchored code is symbolically executable (syscalls, fork, epoll).",
 "C13": "Header rewriting is heap/string construction over kawa block deques with format!/IP formatting; the property relates two header lists - no integer/byte kernel, and stubbing formatting would stub the subject itself.",
 "C17": "Certificate resolver state is a trie (HashMap + regex) plus HashMaps keyed by x509 fingerprints of parsed PEM; every operation passes through x509-parser/rustls and std HashMap, which CBMC cannot execute (measured: 3 HashMap ops do not finish in 10 min).",
}
PENDING = "check not built yet in this session (planned in DESIGN.md section 4; solver-based harness under construction)"

def main():
    checks = []
    for pid in sorted(registry.REGISTRY):
        spec = registry.REGISTRY[pid]
        checks.append({
            "property_id": pid,
            "quick_cmd": "./check %s --tier quick" % pid,
            "thorough_cmd": "./check %s --tier thorough" % pid,
            "evidence_file": "/verif/evidence/%s.json" % pid,
            "replay_cmd_template": "./check --replay {path}",
            "engine": spec.get("engine", "kani"),
            "level_claimed": {
                "category": "model_checking",
                "text": spec["level_text"],
                "design_ref": "DESIGN.md section 4, " + pid,
            },
            "level_note": spec["level_note"],
            "technique": spec["technique"],
        })
    na = []
    allp = [json.loads(l)["id"] for l in open(os.path.join(os.path.dirname(os.path.abspath(__file__)), "properties.jsonl"))]
    for pid in allp:
        if pid in registry.REGISTRY:
            continue
        na.append({"property_id": pid, "reason": NOT_APPLICABLE.get(pid, PENDING)})
    m = {
        "version": 1,
        "setup_cmd": "./check --setup",
        "hooks": {
            "guard": "--cfg sozu_verif",
            "enable": "RUSTFLAGS='--cfg sozu_verif' (set by ./check for cargo kani; engine M reads MIR of the unhooked build)",
            "baseline_off_cmd": "cd /repo && cargo nextest run --workspace --no-fail-fast --tool-config-file pb:/w/lib/nextest.toml --profile pb --test-threads 8 --offline || cargo test --workspace --no-fail-fast --offline",
            "source_commits": registry.HOOK_COMMITS,
            "add_only": True,
        },
        "engines": [
            {"name": "kani", "path": "/verif/kani", "serves_properties": sorted(p for p in registry.REGISTRY if any(o["engine"] == "kani" for o in registry.REGISTRY[p]["obligations"])),
             "kind_free_text": "Kani 0.68 / CBMC 6.11 bounded model checking of harnesses linked against /repo's crates (path deps, hooks on)"},
            {"name": "mir", "path": "/verif/vlib/mir", "serves_properties": sorted(p for p in registry.REGISTRY if any(o["engine"] == "mir" for o in registry.REGISTRY[p]["obligations"])),
             "kind_free_text": "MIR (nightly -Zunpretty=mir of /repo) -> SMT-LIB2 symbolic executor, decided by z3 and cvc5"},
        ],
        "checks": checks,
        "not_applicable": na,
        "notes": "All claims are bounded model checking of the real compiled code; bounds per obligation are in each evidence file (coverage.bounds) and DESIGN.md section 4. exit 2 = inconclusive (never reported as pass).",
    }
    json.dump(m, open(os.path.join(os.path.dirname(os.path.abspath(__file__)), "MANIFEST.json"), "w"), indent=1)
    print("claimed:", " ".join(c["property_id"] for c in checks), "| not_applicable:", " ".join(n["property_id"] for n in na))

main()
