#!/usr/bin/env python3
"""dev helper: ./tools_run.py <timeout_s> <harness> [<harness>...]  — run harnesses in parallel, print a summary"""
import sys, os
sys.path.insert(0, os.path.dirname(os.path.abspath(__file__)))
from vlib import kanirun
t = int(sys.argv[1]); names = sys.argv[2:]
ok, secs, tail = kanirun.build("/verif/.build/logs/adhoc-build.log")
if not ok:
    print(tail[-3000:]); sys.exit(2)
fs = os.environ.get("FS")
ca = {n: ["--max-field-sensitivity-array-size", fs] for n in names} if fs else None
res = kanirun.run_many(names, t, "/verif/.build/logs/adhoc", int(os.environ.get("VERIF_JOBS", "8")), ca)
for n in names:
    r = res[n]
    print("%-50s %-10s checks=%d covers=%d/%d solver=%s wall=%s" % (n, r["verdict"], r["checks"], r["covers_sat"], r["covers_total"], r["time_s"], r["wall_s"]))
    for f in r["failed"][:5]:
        print("     FAIL:", f["desc"], "@", f["loc"])
    for c in r["cover_unsat"][:5]:
        print("     COVER-UNSAT:", c["desc"], c["status"])
