// Counterexample for C11 / c11::c11_undecodable_frame_not_wedged found by CBMC, as a unit test (kani concrete playback).
// native replay: dev=True release=False
// failed checks:
//   "channel wedged: undecodable frame left in the buffer" @ src/c11.rs:474:5 in function c11::c11_undecodable_frame_not_wedged

// re-run: /verif/check --replay /verif/evidence/replays/C11/c11.c11_undecodable_frame_not_wedged.rs
//@module c11.rs
//@harness c11::c11_undecodable_frame_not_wedged
/// Test generated for harness `c11::c11_undecodable_frame_not_wedged` 
///
/// Check for `assertion`: ""channel wedged: undecodable frame left in the buffer""

#[test]
fn kani_concrete_playback_c11_undecodable_frame_not_wedged_17249527976103496017() {
    let concrete_vals: Vec<Vec<u8>> = vec![
        // 3ul
        vec![3, 0, 0, 0, 0, 0, 0, 0],
        // 10
        vec![10],
        // 10
        vec![10],
        // 0
        vec![0],
        // 0
        vec![0],
        // 255
        vec![255],
        // 255
        vec![255],
    ];
    kani::concrete_playback_run(concrete_vals, c11_undecodable_frame_not_wedged);
}
