// Counterexample for C18 / c18::c18_expect_no_overread_inet_tlv found by CBMC, as a unit test (kani concrete playback).
// native replay: dev=True release=True
// failed checks:
//   "expect mode pulled payload bytes past the end of the PROXY header and dropped them" @ src/c18.rs:579:5 in function c18::c18_expect_no_overread_inet_tlv

// re-run: /verif/check --replay /verif/evidence/replays/C18/c18.c18_expect_no_overread_inet_tlv.rs
//@module c18.rs
//@harness c18::c18_expect_no_overread_inet_tlv
/// Test generated for harness `c18::c18_expect_no_overread_inet_tlv` 
///
/// Check for `assertion`: ""expect mode pulled payload bytes past the end of the PROXY header and dropped them""

#[test]
fn kani_concrete_playback_c18_expect_no_overread_inet_tlv_15726082686850080168() {
    let concrete_vals: Vec<Vec<u8>> = vec![
        // 0
        vec![0],
        // 0
        vec![0],
        // 0
        vec![0],
        // 0
        vec![0],
        // 0
        vec![0],
        // 0
        vec![0],
        // 0
        vec![0],
        // 0
        vec![0],
        // 0
        vec![0],
        // 0
        vec![0],
        // 0
        vec![0],
        // 0
        vec![0],
        // 0
        vec![0],
        // 0
        vec![0],
        // 0
        vec![0],
        // 0
        vec![0],
        // 0
        vec![0],
        // 0
        vec![0],
        // 0
        vec![0],
        // 0
        vec![0],
        // 0
        vec![0],
        // 0
        vec![0],
        // 0
        vec![0],
        // 0
        vec![0],
        // 0
        vec![0],
        // 0
        vec![0],
        // 0
        vec![0],
        // 0
        vec![0],
        // 0
        vec![0],
        // 0
        vec![0],
        // 0
        vec![0],
        // 0
        vec![0],
        // 0
        vec![0],
        // 0
        vec![0],
        // 0
        vec![0],
        // 0
        vec![0],
        // 0
        vec![0],
        // 0
        vec![0],
        // 0
        vec![0],
        // 0
        vec![0],
        // 0
        vec![0],
        // 0
        vec![0],
        // 0
        vec![0],
        // 0
        vec![0],
        // 0
        vec![0],
        // 0
        vec![0],
        // 0
        vec![0],
        // 0
        vec![0],
        // 0
        vec![0],
        // 0
        vec![0],
        // 0
        vec![0],
        // 0
        vec![0],
        // 0
        vec![0],
        // 0
        vec![0],
        // 0
        vec![0],
        // 0
        vec![0],
        // 0
        vec![0],
        // 0
        vec![0],
        // 0
        vec![0],
        // 0
        vec![0],
        // 0
        vec![0],
        // 0
        vec![0],
        // 0
        vec![0],
        // 0
        vec![0],
    ];
    kani::concrete_playback_run(concrete_vals, c18_expect_no_overread_inet_tlv);
}
