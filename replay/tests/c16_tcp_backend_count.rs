//! C16 replay for the engine-M obligation `c16_tcp_session_records_its_backend`:
//! TcpSession::connect_to_backend gets `(backend, stream)` from
//! BackendMap::backend_from_cluster_id (which counted the connection:
//! Backend::try_connect -> inc_connections) but never stores the backend handle in
//! `self.backend`, so TcpSession::remove_backend never calls dec_connections and
//! fail_backend_connection never records a failure.  The backend's active_connections
//! counter does not return to its baseline after the sessions are gone.
//!
//! Same construction as sozu_lib::tcp::testing::start_tcp_worker, with a handle on the
//! BackendMap kept in the worker thread and read after the event loop has stopped.
use std::{
    io::{Read, Write},
    net::{TcpListener, TcpStream},
    sync::mpsc,
    thread,
    time::Duration,
};

use sozu_command_lib::{
    channel::Channel,
    config::ListenerBuilder,
    proto::command::{request::RequestType, LoadBalancingParams, RequestTcpFrontend, SocketAddress, SoftStop, WorkerRequest},
    response::Backend,
};
use sozu_lib::{
    server::{ListenSession, Server},
    tcp::TcpProxy,
    testing::{prebuild_server, ServerParts, Token},
    Protocol,
};

#[test]
fn tcp_backend_connection_count_returns_to_zero_when_the_sessions_are_gone() {
    let front_port = sozu_lib::testing::provide_port();
    let backend_listener = TcpListener::bind("127.0.0.1:0").expect("bind backend");
    let backend_port = backend_listener.local_addr().unwrap().port();
    let (mut command, channel) = Channel::generate(1000, 10000).expect("channel");
    let (count_tx, count_rx) = mpsc::channel::<Vec<(String, usize)>>();

    // echo backend: answers "pong" to each connection, then closes it
    let backend = thread::spawn(move || {
        for _ in 0..3 {
            let (mut sock, _) = backend_listener.accept().expect("backend accept");
            let mut buf = [0u8; 16];
            let _ = sock.read(&mut buf);
            let _ = sock.write_all(b"pong");
        }
    });

    let worker = thread::spawn(move || {
        use std::{cell::RefCell, rc::Rc};
        let address = SocketAddress::new_v4(127, 0, 0, 1, front_port);
        let config = ListenerBuilder::new_tcp(address).to_tcp(None).expect("tcp listener config");
        let ServerParts { event_loop, registry, sessions, pool, backends, client_scm_socket: _, server_scm_socket, server_config } =
            prebuild_server(10, 16384, true).expect("prebuild");
        let token = {
            let mut s = sessions.borrow_mut();
            let entry = s.slab.vacant_entry();
            let key = entry.key();
            let _ = entry.insert(Rc::new(RefCell::new(ListenSession { protocol: Protocol::TCPListen })));
            Token(key)
        };
        let mut proxy = TcpProxy::new(registry, sessions.clone(), pool.clone(), backends.clone());
        proxy.add_listener(config, token).expect("add listener");
        proxy.activate_listener(&address.into(), None).expect("activate listener");
        let keep = backends.clone();
        let mut server = Server::new(event_loop, channel, server_scm_socket, sessions, pool, backends, None, None, Some(proxy), server_config, None, false)
            .expect("server");
        server.run();
        let counts = keep
            .borrow()
            .backends
            .iter()
            .flat_map(|(c, list)| list.backends.iter().map(move |b| (format!("{c}/{}", b.borrow().backend_id), b.borrow().active_connections)))
            .collect();
        let _ = count_tx.send(counts);
    });

    command
        .write_message(&WorkerRequest {
            id: "ID_FRONT".to_owned(),
            content: RequestType::AddTcpFrontend(RequestTcpFrontend {
                cluster_id: "cluster_1".to_owned(),
                address: SocketAddress::new_v4(127, 0, 0, 1, front_port),
                ..Default::default()
            })
            .into(),
        })
        .expect("AddTcpFrontend");
    let b = Backend {
        cluster_id: "cluster_1".to_owned(),
        backend_id: "cluster_1-0".to_owned(),
        address: SocketAddress::new_v4(127, 0, 0, 1, backend_port).into(),
        load_balancing_parameters: Some(LoadBalancingParams::default()),
        sticky_id: None,
        backup: None,
    };
    command
        .write_message(&WorkerRequest { id: "ID_BACK".to_owned(), content: RequestType::AddBackend(b.to_add_backend()).into() })
        .expect("AddBackend");
    let _ = command.read_message();
    let _ = command.read_message();

    // three complete TCP sessions, one after the other
    for _ in 0..3 {
        let mut client = TcpStream::connect(("127.0.0.1", front_port)).expect("connect to sozu");
        client.set_read_timeout(Some(Duration::from_secs(5))).unwrap();
        client.write_all(b"ping").expect("client write");
        let mut buf = [0u8; 16];
        let n = client.read(&mut buf).expect("client read");
        assert_eq!(&buf[..n], b"pong");
        drop(client);
        thread::sleep(Duration::from_millis(200));
    }
    backend.join().unwrap();
    thread::sleep(Duration::from_millis(500));
    command
        .write_message(&WorkerRequest { id: "ID_STOP".to_owned(), content: RequestType::SoftStop(SoftStop {}).into() })
        .expect("SoftStop");
    let counts = count_rx.recv_timeout(Duration::from_secs(30)).expect("worker did not stop");
    worker.join().unwrap();
    assert!(!counts.is_empty(), "no backend known to the worker");
    for (name, active) in counts {
        assert_eq!(active, 0, "backend {name}: active_connections is {active} after every session has been closed");
    }
}
