//! C06 finding, replayed natively through the public ConfigState API:
//! two backends sharing a backend_id at different addresses.
use sozu_command_lib::proto::command::{request::RequestType, AddBackend, Cluster, SocketAddress};
use sozu_command_lib::state::ConfigState;

fn backend(id: &str, ip: [u8; 4]) -> RequestType {
    RequestType::AddBackend(AddBackend {
        cluster_id: "c".into(),
        backend_id: id.into(),
        address: SocketAddress::new_v4(ip[0], ip[1], ip[2], ip[3], 80),
        ..Default::default()
    })
}

fn state(backends: &[RequestType]) -> ConfigState {
    let mut s = ConfigState::new();
    s.dispatch(&RequestType::AddCluster(Cluster { cluster_id: "c".into(), ..Default::default() }).into())
        .unwrap();
    for b in backends {
        s.dispatch(&b.clone().into()).unwrap();
    }
    s
}

/// applying diff(A, B) to A must yield exactly B
#[test]
fn f8_diff_same_backend_id_two_addresses() {
    let a = state(&[backend("b", [1, 1, 1, 1]), backend("b", [2, 2, 2, 2])]);
    let b = state(&[backend("b", [1, 1, 1, 1])]);
    let mut applied = state(&[backend("b", [1, 1, 1, 1]), backend("b", [2, 2, 2, 2])]);
    for req in a.diff(&b) {
        let _ = applied.dispatch(&req);
    }
    assert_eq!(applied.backends, b.backends, "diff(A,B) applied to A must give B");
}

#[test]
fn f8_diff_same_backend_id_other_direction() {
    let a = state(&[backend("b", [2, 2, 2, 2])]);
    let b = state(&[backend("b", [1, 1, 1, 1]), backend("b", [2, 2, 2, 2])]);
    let mut applied = state(&[backend("b", [2, 2, 2, 2])]);
    for req in a.diff(&b) {
        let _ = applied.dispatch(&req);
    }
    assert_eq!(applied.backends, b.backends, "diff(A,B) applied to A must give B");
}

/// same backend_id at two addresses where a secondary field (sticky_id) makes the bucket
/// order differ from the (backend_id, address) order
#[test]
fn f8_diff_same_backend_id_bucket_order_differs() {
    let mk = |ip: [u8; 4], sticky: Option<&str>| {
        RequestType::AddBackend(AddBackend {
            cluster_id: "c".into(),
            backend_id: "b".into(),
            address: SocketAddress::new_v4(ip[0], ip[1], ip[2], ip[3], 80),
            sticky_id: sticky.map(|s| s.to_string()),
            ..Default::default()
        })
    };
    let a = state(&[mk([10, 0, 0, 1], Some("x")), mk([10, 0, 0, 2], None)]);
    let b = state(&[mk([10, 0, 0, 1], None), mk([10, 0, 0, 2], None)]);
    let mut applied = state(&[mk([10, 0, 0, 1], Some("x")), mk([10, 0, 0, 2], None)]);
    for req in a.diff(&b) {
        let _ = applied.dispatch(&req);
    }
    assert_eq!(applied.backends, b.backends, "diff(A,B) applied to A must give B");
}
