//! C03/C01 replay for the engine-M obligation `c03_trailers_h1_framing`:
//! a message that arrives over HTTP/2 with a trailer section (second HEADERS frame,
//! END_STREAM) and leaves over HTTP/1.1.
//!   * Content-Length framed: HTTP/1.1 cannot carry trailers after a fixed-length body, yet
//!     handle_trailer leaves the trailer header blocks in kawa and the H1 serialiser writes
//!     them after the body -> the peer reads them as the start of the next message.
//!   * chunked (no Content-Length): the trailer section is written without the `0\r\n`
//!     last-chunk line before it.
//! Reached through the public API: an h2c backend (cluster with http2 = true) answers an
//! HTTP/1.1 client through the in-crate HTTP worker; the client checks the bytes on the wire.
use std::{
    io::{Read, Write},
    net::{TcpListener, TcpStream},
    sync::mpsc,
    thread,
    time::Duration,
};

use sozu_command_lib::{
    channel::Channel,
    config::ListenerBuilder,
    proto::command::{
        request::RequestType, Cluster, LoadBalancingParams, PathRule, RequestHttpFrontend, SocketAddress, SoftStop, WorkerRequest,
    },
    response::Backend,
};
use sozu_lib::http::testing::start_http_worker;

const PREFACE: &[u8] = b"PRI * HTTP/2.0\r\n\r\nSM\r\n\r\n";

fn frame(kind: u8, flags: u8, stream_id: u32, payload: &[u8]) -> Vec<u8> {
    let len = payload.len();
    let mut f = vec![(len >> 16) as u8, (len >> 8) as u8, len as u8, kind, flags];
    f.extend_from_slice(&stream_id.to_be_bytes());
    f.extend_from_slice(payload);
    f
}

fn literal(block: &mut Vec<u8>, name: &[u8], value: &[u8]) {
    block.push(0x00); // literal header field without indexing, new name
    block.push(name.len() as u8);
    block.extend_from_slice(name);
    block.push(value.len() as u8);
    block.extend_from_slice(value);
}

/// minimal h2c server: `:status 200` (+ content-length when asked), DATA "hello" without
/// END_STREAM, then a trailer HEADERS frame `x-t: v` with END_STREAM
fn serve_h2c(listener: TcpListener, with_content_length: bool, done: mpsc::Receiver<()>) {
    let (mut sock, _) = listener.accept().expect("backend accept");
    sock.set_read_timeout(Some(Duration::from_secs(5))).unwrap();
    let mut inbuf: Vec<u8> = Vec::new();
    let mut tmp = [0u8; 4096];
    let mut settings_sent = false;
    let sid;
    'wait: loop {
        let n = sock.read(&mut tmp).expect("backend read");
        assert!(n > 0, "proxy closed the h2c connection early");
        inbuf.extend_from_slice(&tmp[..n]);
        if inbuf.len() < PREFACE.len() {
            continue;
        }
        assert_eq!(&inbuf[..PREFACE.len()], PREFACE, "bad h2 preface");
        if !settings_sent {
            sock.write_all(&frame(0x04, 0, 0, &[])).unwrap();
            sock.write_all(&frame(0x04, 0x01, 0, &[])).unwrap();
            settings_sent = true;
        }
        let mut off = PREFACE.len();
        while inbuf.len() >= off + 9 {
            let len = ((inbuf[off] as usize) << 16) | ((inbuf[off + 1] as usize) << 8) | inbuf[off + 2] as usize;
            if inbuf.len() < off + 9 + len {
                break;
            }
            let (kind, flags) = (inbuf[off + 3], inbuf[off + 4]);
            let id = u32::from_be_bytes([inbuf[off + 5], inbuf[off + 6], inbuf[off + 7], inbuf[off + 8]]) & 0x7fff_ffff;
            if kind == 0x01 && flags & 0x04 != 0 {
                sid = id;
                break 'wait;
            }
            off += 9 + len;
        }
    }
    let mut head = vec![0x88u8]; // :status 200
    if with_content_length {
        literal(&mut head, b"content-length", b"5");
    }
    let mut trailers = Vec::new();
    literal(&mut trailers, b"x-t", b"v");
    let mut out = frame(0x01, 0x04, sid, &head); // HEADERS, END_HEADERS
    out.extend_from_slice(&frame(0x00, 0x00, sid, b"hello")); // DATA, no END_STREAM
    out.extend_from_slice(&frame(0x01, 0x05, sid, &trailers)); // HEADERS, END_STREAM | END_HEADERS
    sock.write_all(&out).expect("backend write response");
    let _ = done.recv_timeout(Duration::from_secs(10));
}

/// what the HTTP/1.1 client sees on the wire for one GET
fn fetch(with_content_length: bool) -> Vec<u8> {
    let front_port = sozu_lib::testing::provide_port();
    let backend_listener = TcpListener::bind("127.0.0.1:0").expect("bind h2c backend");
    let backend_port = backend_listener.local_addr().unwrap().port();
    let config = ListenerBuilder::new_http(SocketAddress::new_v4(127, 0, 0, 1, front_port)).to_http(None).expect("listener config");
    let (mut command, channel) = Channel::generate(1000, 10000).expect("channel");
    let (done_tx, done_rx) = mpsc::channel();
    let mut received = Vec::new();
    thread::scope(|s| {
        s.spawn(move || serve_h2c(backend_listener, with_content_length, done_rx));
        s.spawn(move || {
            start_http_worker(config, channel, 10, 16384).expect("http worker");
        });
        command
            .write_message(&WorkerRequest {
                id: "ID_CLUSTER".to_owned(),
                content: RequestType::AddCluster(Cluster { cluster_id: "cluster_1".to_owned(), http2: Some(true), ..Default::default() }).into(),
            })
            .expect("AddCluster");
        command
            .write_message(&WorkerRequest {
                id: "ID_FRONT".to_owned(),
                content: RequestType::AddHttpFrontend(RequestHttpFrontend {
                    cluster_id: Some("cluster_1".to_owned()),
                    address: SocketAddress::new_v4(127, 0, 0, 1, front_port),
                    hostname: "localhost".to_owned(),
                    path: PathRule::prefix("/".to_owned()),
                    ..Default::default()
                })
                .into(),
            })
            .expect("AddHttpFrontend");
        let backend = Backend {
            cluster_id: "cluster_1".to_owned(),
            backend_id: "cluster_1-0".to_owned(),
            address: SocketAddress::new_v4(127, 0, 0, 1, backend_port).into(),
            load_balancing_parameters: Some(LoadBalancingParams::default()),
            sticky_id: None,
            backup: None,
        };
        command
            .write_message(&WorkerRequest { id: "ID_BACK".to_owned(), content: RequestType::AddBackend(backend.to_add_backend()).into() })
            .expect("AddBackend");
        for _ in 0..3 {
            let _ = command.read_message();
        }
        let mut client = TcpStream::connect(("127.0.0.1", front_port)).expect("connect to sozu");
        client.set_read_timeout(Some(Duration::from_millis(1500))).unwrap();
        client.write_all(b"GET / HTTP/1.1\r\nHost: localhost\r\n\r\n").expect("client write");
        let mut buf = [0u8; 4096];
        loop {
            match client.read(&mut buf) {
                Ok(0) => break,
                Ok(n) => received.extend_from_slice(&buf[..n]),
                Err(_) => break, // keep-alive connection: nothing more within the timeout
            }
        }
        let _ = done_tx.send(());
        command
            .write_message(&WorkerRequest { id: "ID_STOP".to_owned(), content: RequestType::SoftStop(SoftStop {}).into() })
            .expect("SoftStop");
    });
    received
}

fn split_head(wire: &[u8]) -> (String, Vec<u8>) {
    let p = wire.windows(4).position(|w| w == b"\r\n\r\n").expect("no response head received") + 4;
    (String::from_utf8_lossy(&wire[..p]).to_lowercase(), wire[p..].to_vec())
}

#[test]
fn content_length_framed_response_carries_nothing_after_its_body() {
    let wire = fetch(true);
    let (head, rest) = split_head(&wire);
    assert!(head.contains("content-length: 5"), "unexpected head: {head}");
    assert_eq!(
        String::from_utf8_lossy(&rest),
        "hello",
        "bytes after the 5-byte body on a keep-alive HTTP/1.1 connection are read as the next response"
    );
}

#[test]
fn chunked_response_with_trailers_ends_with_a_last_chunk() {
    let wire = fetch(false);
    let (head, rest) = split_head(&wire);
    assert!(head.contains("transfer-encoding: chunked"), "unexpected head: {head}");
    let body = String::from_utf8_lossy(&rest).to_string();
    assert!(body.starts_with("5\r\nhello\r\n"), "unexpected chunked body: {body:?}");
    assert!(
        body["5\r\nhello\r\n".len()..].starts_with("0\r\n"),
        "the trailer section is not preceded by the last-chunk line `0\\r\\n`: {body:?}"
    );
}
