//! C09 replay for the engine-M obligation `c09_on_finish_answers_once`:
//! StopTask::on_finish (hard stop that timed out) sends finish_failure("Workers take too long
//! to stop ...") and then, unconditionally, finish_ok("Successfully closed ..."): the client of
//! the command socket receives two final answers for one request.
//! Needs `--cfg sozu_verif` (hook H6) and the `bin` feature.
#![cfg(all(sozu_verif, feature = "bin"))]
use std::sync::Arc;
use std::time::Duration;

use mio::net::UnixListener;
use mio::Token;
use sozu::command::server::{CommandHub, PeerCred, ServerState};
use sozu::command::sessions::ClientSession;
use sozu::command::verif_stop_task_on_finish;
use sozu_command_lib::{
    channel::Channel,
    config::Config,
    proto::command::{Request, Response, ResponseStatus},
};

fn finals_for(hardness: bool, timed_out: bool) -> Vec<i32> {
    let path = std::env::temp_dir().join(format!("sozu-verif-c09-stop-{}-{}{}", std::process::id(), hardness as u8, timed_out as u8));
    let _ = std::fs::remove_file(&path);
    let listener = UnixListener::bind(&path).expect("bind");
    let mut hub = CommandHub::new(listener, Config::default(), String::new()).expect("hub");
    hub.server.run_state = ServerState::WorkersStopping; // what stop() sets before scattering
    let (hub_side, mut client_side): (Channel<Response, Request>, Channel<Request, Response>) =
        Channel::generate(1000, 100000).expect("channel pair");
    let mut client = ClientSession::new(hub_side, 0, Token(7), PeerCred::default(), None, None, Arc::from("verif"));
    verif_stop_task_on_finish(&mut hub.server, &mut client, hardness, timed_out);
    // flush what the session queued
    for _ in 0..16 {
        let _ = client.channel.writable();
    }
    let mut finals = Vec::new();
    client_side.blocking().expect("blocking");
    while let Ok(resp) = client_side.read_message_blocking_timeout(Some(Duration::from_millis(300))) {
        if resp.status == ResponseStatus::Ok as i32 || resp.status == ResponseStatus::Failure as i32 {
            finals.push(resp.status);
        }
    }
    let _ = std::fs::remove_file(&path);
    finals
}

#[test]
fn a_stop_request_gets_exactly_one_final_answer() {
    for (hardness, timed_out) in [(false, false), (true, false), (false, true), (true, true)] {
        let finals = finals_for(hardness, timed_out);
        assert_eq!(
            finals.len(),
            1,
            "hard={hardness} timed_out={timed_out}: the client received {} final answers: {:?}",
            finals.len(),
            finals
        );
    }
}
