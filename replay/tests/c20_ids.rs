//! C20 finding: message ids generated for a large configuration must stay distinct
//! (native replay: 300 TCP listeners).
use std::collections::HashSet;

use sozu_command_lib::config::Config;
use sozu_command_lib::proto::command::{SocketAddress, TcpListenerConfig};

#[test]
fn three_hundred_listeners_get_distinct_message_ids() {
    let mut config = Config::default();
    for i in 0..300u16 {
        config.tcp_listeners.push(TcpListenerConfig {
            address: SocketAddress::new_v4(127, 0, 0, 1, 10_000 + i),
            ..Default::default()
        });
    }
    let messages = config.generate_config_messages().expect("messages");
    assert!(messages.len() >= 300);
    let ids: HashSet<&str> = messages.iter().map(|m| m.id.as_str()).collect();
    assert_eq!(ids.len(), messages.len(), "duplicate CONFIG-n message ids");
}
