//! C04 findings, replayed natively through the public Router API.
use sozu_lib::protocol::http::parser::Method;
use sozu_lib::router::{MethodRule, PathRule, Route, Router};

fn cluster(r: &sozu_lib::router::RouteResult) -> Option<String> {
    r.cluster_id.clone()
}

/// F1: an EQUALS frontend can be removed again (and is not duplicated by re-adding it)
#[test]
fn f1_equals_rule_can_be_removed() {
    let mut router = Router::new();
    let any = MethodRule::new(None);
    assert!(router.add_tree_rule(b"a.io", &PathRule::Prefix("/".into()), &any, &Route::ClusterId("base".into())));
    assert!(router.add_tree_rule(b"a.io", &PathRule::Equals("/x".into()), &any, &Route::ClusterId("eq".into())));
    assert_eq!(cluster(&router.lookup("a.io", "/x", &Method::Get).unwrap()), Some("eq".to_string()));
    assert!(router.remove_tree_rule(b"a.io", &PathRule::Equals("/x".into()), &any));
    // after removal no request is routed by the removed frontend
    assert_eq!(cluster(&router.lookup("a.io", "/x", &Method::Get).unwrap()), Some("base".to_string()));
}

/// F2: EQUALS beats PREFIX on the same string whatever the insertion order
#[test]
fn f2_equals_beats_prefix_in_both_orders() {
    let any = MethodRule::new(None);
    for order in 0..2 {
        let mut router = Router::new();
        let rules = [
            (PathRule::Equals("/a".into()), Route::ClusterId("eq".into())),
            (PathRule::Prefix("/a".into()), Route::ClusterId("pre".into())),
        ];
        let idx: [usize; 2] = if order == 0 { [0, 1] } else { [1, 0] };
        for i in idx {
            assert!(router.add_tree_rule(b"a.io", &rules[i].0, &any, &rules[i].1));
        }
        assert_eq!(
            cluster(&router.lookup("a.io", "/a", &Method::Get).unwrap()),
            Some("eq".to_string()),
            "insertion order {order}"
        );
    }
}

/// F2b: method-specific beats method-agnostic on the same prefix whatever the order
#[test]
fn f2b_method_specific_beats_agnostic_in_both_orders() {
    let any = MethodRule::new(None);
    let get = MethodRule::new(Some("GET".into()));
    for order in 0..2 {
        let mut router = Router::new();
        let rules = [
            (get.clone(), Route::ClusterId("get".into())),
            (any.clone(), Route::ClusterId("any".into())),
        ];
        let idx: [usize; 2] = if order == 0 { [0, 1] } else { [1, 0] };
        for i in idx {
            assert!(router.add_tree_rule(b"a.io", &PathRule::Prefix("/a".into()), &rules[i].0, &rules[i].1));
        }
        assert_eq!(
            cluster(&router.lookup("a.io", "/a/b", &Method::Get).unwrap()),
            Some("get".to_string()),
            "insertion order {order}"
        );
    }
}
