//! C07 replay of the engine-M counterexample `c07_worker_add_frontend_atomic`
//! (HttpsProxy::add_https_frontend): the tags of the hostname are overwritten before the
//! fallible insertion into the router, so an AddHttpsFrontend the worker rejects (duplicate
//! route) still changes the tags of an already configured hostname.
//! Needs `--cfg sozu_verif` (hook H5: HttpsProxy::verif_listener).
#![cfg(sozu_verif)]
use std::collections::BTreeMap;

use sozu_command_lib::{
    config::ListenerBuilder,
    proto::command::{PathRule, RequestHttpFrontend, RulePosition, SocketAddress},
};
use sozu_lib::{
    testing::{prebuild_server, HttpsProxy, ServerParts, Token},
    ListenerHandler,
};

fn tags(owner: &str) -> BTreeMap<String, String> {
    [("owner".to_owned(), owner.to_owned())].into_iter().collect()
}

fn frontend(address: SocketAddress, cluster: &str, owner: &str) -> RequestHttpFrontend {
    RequestHttpFrontend {
        cluster_id: Some(cluster.to_owned()),
        address,
        hostname: "lolcatho.st".to_owned(),
        path: PathRule::prefix("/".to_owned()),
        method: None,
        position: RulePosition::Tree.into(),
        tags: tags(owner),
        ..Default::default()
    }
}

#[test]
fn rejected_duplicate_https_frontend_leaves_tags_untouched() {
    let address = SocketAddress::new_v4(127, 0, 0, 1, 1843);
    let ServerParts { event_loop: _event_loop, registry, sessions, pool, backends, .. } =
        prebuild_server(10, 16384, false).expect("prebuild server parts");
    let mut proxy = HttpsProxy::new(registry, sessions, pool, backends);
    let config = ListenerBuilder::new_https(address).to_tls(None).expect("default HTTPS listener config");
    let token = proxy.add_listener(config, Token(3)).expect("add the listener");
    proxy.add_https_frontend(frontend(address, "cluster_a", "team-a")).expect("the first frontend is accepted");
    let listener = proxy.verif_listener(&token).expect("listener");
    assert_eq!(listener.borrow().get_tags("lolcatho.st").map(|t| t.tags.clone()), Some(tags("team-a")));

    let rejected = proxy.add_https_frontend(frontend(address, "cluster_b", "team-b"));
    assert!(rejected.is_err(), "a duplicate route must be rejected");
    assert_eq!(
        listener.borrow().get_tags("lolcatho.st").map(|t| t.tags.clone()),
        Some(tags("team-a")),
        "a rejected AddHttpsFrontend changed the tags of the hostname"
    );
}
