//! C07 known finding (worker side): HttpListener::update_config fails on a malformed answer
//! template only after the other patch fields were stored into the live listener.
use sozu_command_lib::proto::command::{HttpListenerConfig, SocketAddress, UpdateHttpListenerConfig};
use sozu_lib::http::HttpListener;
use sozu_lib::L7ListenerHandler;

#[test]
fn rejected_worker_patch_with_bad_template_leaves_no_trace() {
    let addr = SocketAddress::new_v4(127, 0, 0, 1, 18080);
    let mut listener = HttpListener::new(HttpListenerConfig { address: addr, ..Default::default() }, mio::Token(7)).expect("listener");
    let before = listener.get_connect_timeout();
    let mut answers = std::collections::BTreeMap::new();
    // a template that does not parse (no status line / unknown variable)
    answers.insert("503".to_string(), "%%UNKNOWN_VARIABLE garbage without status line".to_string());
    let patch = UpdateHttpListenerConfig {
        address: addr,
        connect_timeout: Some(before + 7),
        answers,
        ..Default::default()
    };
    let r = listener.update_config(&patch);
    assert!(r.is_err(), "a malformed template must be rejected (got Ok: pick another malformed template)");
    assert_eq!(listener.get_connect_timeout(), before, "a rejected patch changed connect_timeout in the live listener");
}
