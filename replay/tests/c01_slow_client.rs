//! C01 replay of the engine-M counterexample `c01_ready_no_silent_spin`:
//! backend readiness event = HUP (FIN received), interest contains HUP, buffer pressure (the
//! client is not reading), client idle.  Mux::ready's inner loop then runs no handler and does
//! not break; it repeats until the iteration budget returns SessionResult::Close with the
//! response still buffered -> the client sees a truncated body.
//!
//! The state is reached through the public API only: an H1 backend sends a large
//! Content-Length body and closes, the client reads slowly.  Whether the FIN overtakes the
//! unread bytes depends on kernel scheduling, so the scenario is attempted several times; one
//! truncated response is a reproduction.
use std::{
    io::{Read, Write},
    net::{TcpListener, TcpStream},
    thread,
    time::{Duration, Instant},
};

use sozu_command_lib::{
    channel::Channel,
    config::ListenerBuilder,
    proto::command::{
        request::RequestType, LoadBalancingParams, PathRule, RequestHttpFrontend, SocketAddress, SoftStop, WorkerRequest,
    },
    response::Backend,
};
use sozu_lib::http::testing::start_http_worker;

const BODY_LEN: usize = 24 * 1024 * 1024;
const ATTEMPTS: usize = 10;

fn body_byte(i: usize) -> u8 {
    (i % 251) as u8
}

/// one proxied response; returns the number of body bytes the client received
fn attempt() -> usize {
    let front_port = sozu_lib::testing::provide_port();
    let backend_listener = TcpListener::bind("127.0.0.1:0").expect("bind backend");
    let backend_port = backend_listener.local_addr().unwrap().port();
    let config = ListenerBuilder::new_http(SocketAddress::new_v4(127, 0, 0, 1, front_port))
        .to_http(None)
        .expect("listener config");
    let (mut command, channel) = Channel::generate(1000, 10000).expect("channel");
    let mut got = 0usize;
    thread::scope(|s| {
        s.spawn(move || {
            let (mut sock, _) = backend_listener.accept().expect("backend accept");
            let mut req = Vec::new();
            let mut buf = [0u8; 4096];
            while !req.windows(4).any(|w| w == b"\r\n\r\n") {
                let n = sock.read(&mut buf).expect("backend read");
                if n == 0 {
                    return;
                }
                req.extend_from_slice(&buf[..n]);
            }
            let head = format!("HTTP/1.1 200 OK\r\nContent-Length: {BODY_LEN}\r\nConnection: close\r\n\r\n");
            let _ = sock.write_all(head.as_bytes());
            let body: Vec<u8> = (0..BODY_LEN).map(body_byte).collect();
            let _ = sock.write_all(&body);
            // drop: FIN right behind the last byte
        });
        s.spawn(move || {
            start_http_worker(config, channel, 10, 16384).expect("http worker");
        });
        let front = RequestHttpFrontend {
            cluster_id: Some("cluster_1".to_owned()),
            address: SocketAddress::new_v4(127, 0, 0, 1, front_port),
            hostname: "localhost".to_owned(),
            path: PathRule::prefix("/".to_owned()),
            ..Default::default()
        };
        command
            .write_message(&WorkerRequest { id: "ID_ABCD".to_owned(), content: RequestType::AddHttpFrontend(front).into() })
            .expect("AddHttpFrontend");
        let backend = Backend {
            cluster_id: "cluster_1".to_owned(),
            backend_id: "cluster_1-0".to_owned(),
            address: SocketAddress::new_v4(127, 0, 0, 1, backend_port).into(),
            load_balancing_parameters: Some(LoadBalancingParams::default()),
            sticky_id: None,
            backup: None,
        };
        command
            .write_message(&WorkerRequest { id: "ID_EFGH".to_owned(), content: RequestType::AddBackend(backend.to_add_backend()).into() })
            .expect("AddBackend");
        let _ = command.read_message();
        let _ = command.read_message();

        let mut client = TcpStream::connect(("127.0.0.1", front_port)).expect("connect to sozu");
        client.set_read_timeout(Some(Duration::from_secs(5))).unwrap();
        client
            .write_all(b"GET / HTTP/1.1\r\nHost: localhost\r\nConnection: close\r\n\r\n")
            .expect("client write");
        // slow reader: let every buffer fill, then drain in small paced reads
        thread::sleep(Duration::from_millis(500));
        let mut received = Vec::with_capacity(BODY_LEN + 1024);
        let mut buf = vec![0u8; 24 * 1024];
        let deadline = Instant::now() + Duration::from_secs(60);
        let mut reads = 0usize;
        loop {
            if Instant::now() >= deadline {
                break;
            }
            match client.read(&mut buf) {
                Ok(0) => break,
                Ok(n) => received.extend_from_slice(&buf[..n]),
                Err(_) => break,
            }
            reads += 1;
            if reads % 4 == 0 {
                thread::sleep(Duration::from_micros(300));
            }
        }
        command
            .write_message(&WorkerRequest { id: "ID_STOP".to_owned(), content: RequestType::SoftStop(SoftStop {}).into() })
            .expect("SoftStop");
        if let Some(p) = received.windows(4).position(|w| w == b"\r\n\r\n") {
            let body = &received[p + 4..];
            got = body.len();
            if let Some(bad) = (0..body.len().min(BODY_LEN)).find(|&i| body[i] != body_byte(i)) {
                panic!("response body corrupted at offset {bad}");
            }
        }
    });
    got
}

#[test]
fn large_response_reaches_a_slow_client_intact_after_backend_fin() {
    for n in 0..ATTEMPTS {
        let got = attempt();
        assert_eq!(got, BODY_LEN, "attempt {n}: response body truncated: the client got {got} of {BODY_LEN} bytes and then EOF");
    }
}
