//! C01 replay for the engine-M obligation `c01_interim_response_keeps_storage`:
//! an HTTP/1.1 backend answers `103 Early Hints` and starts its final `200` response
//! (head + first half of a Content-Length body) in the same TCP write.  After the interim
//! response has been flushed, ConnectionH1::writable resets the parsed blocks of the response
//! kawa; if it also clears the storage buffer, the bytes of the final response that arrived in
//! the same read are thrown away and the client never receives the body the backend sent.
//! Reached through the public API (in-crate HTTP worker, real sockets).
use std::{
    io::{Read, Write},
    net::{TcpListener, TcpStream},
    thread,
    time::{Duration, Instant},
};

use sozu_command_lib::{
    channel::Channel,
    config::ListenerBuilder,
    proto::command::{
        request::RequestType, Cluster, LoadBalancingParams, PathRule, RequestHttpFrontend, SocketAddress, SoftStop, WorkerRequest,
    },
    response::Backend,
};
use sozu_lib::http::testing::start_http_worker;

const TOTAL: usize = 3000;

fn pattern(tag: u8, len: usize) -> Vec<u8> {
    (0..len).map(|i| b'a' + (((i % 251) as u8).wrapping_add(tag) % 26)).collect()
}

#[test]
fn final_response_sharing_a_read_with_the_interim_response_arrives_whole() {
    let backend_listener = TcpListener::bind("127.0.0.1:0").expect("bind backend");
    let backend_port = backend_listener.local_addr().unwrap().port();
    let front_port = TcpListener::bind("127.0.0.1:0").and_then(|l| l.local_addr()).expect("front port").port();
    let body = pattern(5, TOTAL);
    let to_send = body.clone();
    let backend = thread::spawn(move || {
        let (mut sock, _) = backend_listener.accept().expect("backend accept");
        sock.set_read_timeout(Some(Duration::from_secs(5))).unwrap();
        sock.set_nodelay(true).unwrap();
        let mut req = Vec::new();
        let mut tmp = [0u8; 4096];
        while !req.windows(4).any(|w| w == b"\r\n\r\n") {
            let n = sock.read(&mut tmp).expect("backend read");
            assert!(n > 0, "proxy closed the backend connection early");
            req.extend_from_slice(&tmp[..n]);
        }
        let mut first = Vec::new();
        first.extend_from_slice(b"HTTP/1.1 103 Early Hints\r\nLink: </style.css>; rel=preload\r\n\r\n");
        first.extend_from_slice(format!("HTTP/1.1 200 OK\r\nContent-Length: {TOTAL}\r\n\r\n").as_bytes());
        first.extend_from_slice(&to_send[..TOTAL / 2]);
        sock.write_all(&first).expect("backend write 1");
        thread::sleep(Duration::from_millis(400));
        sock.write_all(&to_send[TOTAL / 2..]).expect("backend write 2");
        let _ = sock.read(&mut tmp);
    });

    let config = ListenerBuilder::new_http(SocketAddress::new_v4(127, 0, 0, 1, front_port)).to_http(None).expect("listener config");
    let (mut command, channel) = Channel::generate(1000, 10000).expect("channel");
    thread::spawn(move || {
        start_http_worker(config, channel, 10, 16393).expect("http worker");
    });
    command
        .write_message(&WorkerRequest {
            id: "ID_CLUSTER".to_owned(),
            content: RequestType::AddCluster(Cluster { cluster_id: "cluster_1".to_owned(), ..Default::default() }).into(),
        })
        .expect("AddCluster");
    command
        .write_message(&WorkerRequest {
            id: "ID_FRONT".to_owned(),
            content: RequestType::AddHttpFrontend(RequestHttpFrontend {
                cluster_id: Some("cluster_1".to_owned()),
                address: SocketAddress::new_v4(127, 0, 0, 1, front_port),
                hostname: "localhost".to_owned(),
                path: PathRule::prefix("/".to_owned()),
                ..Default::default()
            })
            .into(),
        })
        .expect("AddHttpFrontend");
    let b = Backend {
        cluster_id: "cluster_1".to_owned(),
        backend_id: "cluster_1-0".to_owned(),
        address: SocketAddress::new_v4(127, 0, 0, 1, backend_port).into(),
        load_balancing_parameters: Some(LoadBalancingParams::default()),
        sticky_id: None,
        backup: None,
    };
    command
        .write_message(&WorkerRequest { id: "ID_BACK".to_owned(), content: RequestType::AddBackend(b.to_add_backend()).into() })
        .expect("AddBackend");
    for _ in 0..3 {
        let _ = command.read_message();
    }

    let mut client = TcpStream::connect(("127.0.0.1", front_port)).expect("connect to sozu");
    client.set_read_timeout(Some(Duration::from_secs(3))).unwrap();
    client.write_all(b"GET /page HTTP/1.1\r\nHost: localhost\r\nConnection: close\r\n\r\n").unwrap();
    let mut received = Vec::new();
    let mut buf = [0u8; 4096];
    let until = Instant::now() + Duration::from_secs(4);
    while Instant::now() < until {
        match client.read(&mut buf) {
            Ok(0) => break,
            Ok(n) => {
                received.extend_from_slice(&buf[..n]);
                if received.ends_with(&body[TOTAL - 16..]) {
                    break;
                }
            }
            Err(_) => break,
        }
    }
    drop(client);
    let _ = command.write_message(&WorkerRequest { id: "ID_STOP".to_owned(), content: RequestType::SoftStop(SoftStop {}).into() });
    backend.join().expect("backend thread");

    let text = String::from_utf8_lossy(&received).to_string();
    assert!(text.starts_with("HTTP/1.1 103"), "the interim response was not forwarded first: {text:?}");
    let final_at = text.find("HTTP/1.1 200").unwrap_or_else(|| panic!("no final 200 response reached the client: {text:?}"));
    let head_end = text[final_at..].find("\r\n\r\n").unwrap_or_else(|| panic!("final response head incomplete: {text:?}")) + final_at + 4;
    let got = &received[head_end..];
    assert_eq!(got.len(), TOTAL, "final response body length");
    assert!(got == &body[..], "final response body bytes differ from what the backend sent");
}
