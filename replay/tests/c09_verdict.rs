//! C09 finding: a task finished by its deadline must be reported to the task as timed out.
//! Native replay with a real CommandHub, a probe GatheringTask whose single expected worker
//! answer never arrives, and a zero deadline.
#![cfg(feature = "bin")]
use std::sync::atomic::{AtomicU8, Ordering};
use std::time::Duration;

use mio::net::UnixListener;
use mio::Token;
use sozu::command::server::{
    CommandHub, DefaultGatherer, Gatherer, GatheringTask, Server, ServerState, Timeout,
};
use sozu::command::sessions::OptionalClient;
use sozu_command_lib::config::Config;

static SEEN: AtomicU8 = AtomicU8::new(0); // 1 = on_finish(false), 2 = on_finish(true)

#[derive(Debug)]
struct Probe {
    gatherer: DefaultGatherer,
}
impl GatheringTask for Probe {
    fn client_token(&self) -> Option<Token> {
        None
    }
    fn get_gatherer(&mut self) -> &mut dyn Gatherer {
        &mut self.gatherer
    }
    fn on_finish(self: Box<Self>, _server: &mut Server, _client: &mut OptionalClient, timed_out: bool) {
        SEEN.store(if timed_out { 2 } else { 1 }, Ordering::SeqCst);
    }
}

#[test]
fn silent_worker_past_the_deadline_is_reported_as_timed_out() {
    let dir = std::env::temp_dir().join(format!("sozu-verif-c09-{}", std::process::id()));
    let _ = std::fs::remove_file(&dir);
    let listener = UnixListener::bind(&dir).expect("bind");
    let mut hub = CommandHub::new(listener, Config::default(), String::new()).expect("hub");
    let mut gatherer = DefaultGatherer::default();
    gatherer.inc_expected_responses(1); // one live worker was targeted; it stays silent
    hub.server.new_task(Box::new(Probe { gatherer }), Timeout::Custom(Duration::from_secs(0)));
    std::thread::sleep(Duration::from_millis(5));
    hub.server.run_state = ServerState::Stopping; // leave run() after the first pass
    let _ = hub.run();
    let _ = std::fs::remove_file(&dir);
    assert_eq!(SEEN.load(Ordering::SeqCst), 2, "task finished by deadline must see timed_out = true (1 = it saw false)");
}
