//! C07: a rejected listener patch leaves the listener exactly as it was.
//! Native replay of the counterexample family engine M reports (a write to the listener on
//! a path that returns Err): one valid field + one invalid late-validated field.
use std::net::SocketAddr;

use sozu_command_lib::proto::command::{
    request::RequestType, AlpnProtocols, HttpListenerConfig, HttpsListenerConfig, SocketAddress,
    UpdateHttpListenerConfig, UpdateHttpsListenerConfig,
};
use sozu_command_lib::state::ConfigState;

fn addr() -> SocketAddress {
    SocketAddress::new_v4(0, 0, 0, 0, 8080)
}

#[test]
fn http_patch_rejected_for_sozu_id_header_leaves_no_trace() {
    let mut state = ConfigState::new();
    state
        .dispatch(&RequestType::AddHttpListener(HttpListenerConfig { address: addr(), ..Default::default() }).into())
        .unwrap();
    let before = state.http_listeners.get(&SocketAddr::from(addr())).unwrap().clone();
    let patch = UpdateHttpListenerConfig {
        address: addr(),
        front_timeout: Some(before.front_timeout + 7),
        sozu_id_header: Some(String::new()), // invalid: empty header name
        ..Default::default()
    };
    let r = state.dispatch(&RequestType::UpdateHttpListener(patch).into());
    assert!(r.is_err(), "empty sozu_id_header must be rejected");
    let after = state.http_listeners.get(&SocketAddr::from(addr())).unwrap();
    assert_eq!(&before, after, "a rejected patch must not change the listener");
}

#[test]
fn https_patch_rejected_for_alpn_leaves_no_trace() {
    let mut state = ConfigState::new();
    state
        .dispatch(&RequestType::AddHttpsListener(HttpsListenerConfig { address: addr(), ..Default::default() }).into())
        .unwrap();
    let before = state.https_listeners.get(&SocketAddr::from(addr())).unwrap().clone();
    let patch = UpdateHttpsListenerConfig {
        address: addr(),
        front_timeout: Some(before.front_timeout + 7),
        alpn_protocols: Some(AlpnProtocols { values: vec!["spdy/3".to_string()] }),
        ..Default::default()
    };
    let r = state.dispatch(&RequestType::UpdateHttpsListener(patch).into());
    assert!(r.is_err(), "unknown ALPN protocol must be rejected");
    let after = state.https_listeners.get(&SocketAddr::from(addr())).unwrap();
    assert_eq!(&before, after, "a rejected patch must not change the listener");
}

#[test]
fn https_patch_rejected_for_sozu_id_header_leaves_no_trace() {
    let mut state = ConfigState::new();
    state
        .dispatch(&RequestType::AddHttpsListener(HttpsListenerConfig { address: addr(), ..Default::default() }).into())
        .unwrap();
    let before = state.https_listeners.get(&SocketAddr::from(addr())).unwrap().clone();
    let patch = UpdateHttpsListenerConfig {
        address: addr(),
        strict_sni_binding: Some(true),
        sozu_id_header: Some("bad header".to_string()),
        ..Default::default()
    };
    let r = state.dispatch(&RequestType::UpdateHttpsListener(patch).into());
    assert!(r.is_err(), "sozu_id_header with a space must be rejected");
    let after = state.https_listeners.get(&SocketAddr::from(addr())).unwrap();
    assert_eq!(&before, after, "a rejected patch must not change the listener");
}

/// C08 view-vs-behaviour finding: an accepted patch must be recorded by the state for every
/// field the worker-side listener applies (elide_x_real_ip / send_x_real_ip / answers / hsts)
#[test]
fn accepted_patch_is_fully_recorded_in_state() {
    let mut state = ConfigState::new();
    state
        .dispatch(&RequestType::AddHttpListener(HttpListenerConfig { address: addr(), ..Default::default() }).into())
        .unwrap();
    let mut answers = std::collections::BTreeMap::new();
    answers.insert("503".to_string(), "HTTP/1.1 503 Service Unavailable\r\n\r\n".to_string());
    let patch = UpdateHttpListenerConfig {
        address: addr(),
        elide_x_real_ip: Some(true),
        send_x_real_ip: Some(true),
        answers,
        ..Default::default()
    };
    state.dispatch(&RequestType::UpdateHttpListener(patch).into()).expect("valid patch");
    let l = state.http_listeners.get(&SocketAddr::from(addr())).unwrap();
    assert_eq!(l.elide_x_real_ip, Some(true), "accepted elide_x_real_ip not recorded");
    assert_eq!(l.send_x_real_ip, Some(true), "accepted send_x_real_ip not recorded");
    assert!(l.answers.contains_key("503"), "accepted answers template not recorded");
}
