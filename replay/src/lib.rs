//! native (non-solver) replay of counterexamples and findings against the real build
